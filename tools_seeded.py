#!/usr/bin/env python3
"""Run the registered checks against every seeded property-breaking change.

Default: on a scratch worktree of /repo under $TMPDIR (GBASIS_REPO points the checks at it; evidence and replays of
these runs go to a scratch directory), which is removed afterwards.  With --in-place the prescribed sequence is used:
   git -C /repo apply <patch>; ./vcheck <prop> --tier <tier>; git -C /repo checkout -- .
Writes seeded/RESULTS_<tier>.json (which checks catch which change)."""
import json, os, subprocess, sys, glob, time, tempfile, shutil
HERE = os.path.dirname(os.path.abspath(__file__))
REPO = "/repo"
RUN = HERE
args = [a for a in sys.argv[1:] if not a.startswith("--")]
inplace = "--in-place" in sys.argv
tier = args[0] if args else "quick"
only = args[1:] or None
res = {}
scratch = None
env = dict(os.environ)
if inplace:
    assert subprocess.run(["git", "-C", REPO, "status", "--porcelain", "--untracked-files=no"], capture_output=True, text=True).stdout.strip() == "", "repo not clean"
    target = REPO
else:
    scratch = tempfile.mkdtemp(prefix="gbasis-seeded-")
    target = os.path.join(scratch, "repo")
    subprocess.run(["git", "-C", REPO, "worktree", "add", "-q", "--detach", target, "HEAD"], check=True)
    env.update(GBASIS_REPO=target, VERIF_EVIDENCE_DIR=os.path.join(scratch, "evidence"), VERIF_REPLAY_DIR=os.path.join(scratch, "replays"))
    # the checks run from a snapshot of the machinery, so that /verif can be edited while this runs
    RUN = os.path.join(scratch, "verif")
    subprocess.run(["rsync", "-a", "--exclude", ".git", "--exclude", ".venv", "--exclude", "replays", "--exclude", "__pycache__", HERE + "/", RUN + "/"], check=True)
    if not os.path.exists(os.path.join(HERE, ".venv")):
        subprocess.run([os.path.join(HERE, "setup.sh")], check=True, cwd=HERE)
    os.symlink(os.path.join(HERE, ".venv"), os.path.join(RUN, ".venv"))
try:
    for d in sorted(glob.glob(os.path.join(HERE, "seeded", "*", ""))):
        sid = os.path.basename(os.path.dirname(d))
        if only and sid not in only:
            continue
        meta = json.load(open(os.path.join(d, "meta.json")))
        patch = os.path.join(d, "patch.diff")
        r = subprocess.run(["git", "-C", target, "apply", "--whitespace=nowarn", patch], capture_output=True, text=True)
        if r.returncode != 0:
            res[sid] = {"error": "patch does not apply: " + r.stderr[:300]}
            print(sid, res[sid], flush=True)
            continue
        try:
            out = {}
            for prop in meta.get("checks", [meta["property"]]):
                t = time.time()
                p = subprocess.run([os.path.join(RUN, "vcheck"), prop, "--tier", tier], capture_output=True, text=True, cwd=RUN, env=env)
                viol = [l for l in p.stdout.splitlines() if l.startswith("VIOLATION")]
                out[prop] = {"exit": p.returncode, "violations": len(viol), "confirmed_by_native_replay": sum(1 for l in viol if not l.rstrip().endswith("no-failing-input-found")),
                             "first": viol[0][:300] if viol else None, "secs": round(time.time() - t, 1), "summary": p.stdout.strip().splitlines()[-1][:200] if p.stdout.strip() else ""}
            res[sid] = {"property": meta["property"], "results": out, "caught": any(v["exit"] == 1 for v in out.values()),
                        "caught_by_own_check": out.get(meta["property"], {}).get("exit") == 1}
        finally:
            subprocess.run(["git", "-C", target, "checkout", "--", "."], check=True)
        print(sid, json.dumps(res[sid])[:400], flush=True)
finally:
    if scratch:
        subprocess.run(["git", "-C", REPO, "worktree", "remove", "--force", target])
        shutil.rmtree(scratch, ignore_errors=True)
out_path = os.path.join(HERE, "seeded", "RESULTS_%s.json" % tier)
allres = json.load(open(out_path)) if os.path.exists(out_path) else {}
allres.update(res)
json.dump(allres, open(out_path, "w"), indent=1, sort_keys=True)
