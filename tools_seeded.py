#!/usr/bin/env python3
"""Run the registered checks against every seeded property-breaking change:
   git -C /repo apply <patch>; ./vcheck <prop> --tier <tier>; git -C /repo checkout -- .
Writes seeded/RESULTS.json (which checks catch which change).  /repo is always restored."""
import json, os, subprocess, sys, glob, time
HERE = os.path.dirname(os.path.abspath(__file__))
REPO = "/repo"
tier = sys.argv[1] if len(sys.argv) > 1 else "quick"
only = sys.argv[2:] or None
res = {}
assert subprocess.run(["git", "-C", REPO, "status", "--porcelain", "--untracked-files=no"], capture_output=True, text=True).stdout.strip() == "", "repo not clean"
for d in sorted(glob.glob(os.path.join(HERE, "seeded", "*", ""))):
    sid = os.path.basename(os.path.dirname(d))
    if only and sid not in only:
        continue
    meta = json.load(open(os.path.join(d, "meta.json")))
    patch = os.path.join(d, "patch.diff")
    r = subprocess.run(["git", "-C", REPO, "apply", "--whitespace=nowarn", patch], capture_output=True, text=True)
    if r.returncode != 0:
        res[sid] = {"error": "patch does not apply: " + r.stderr[:300]}
        continue
    try:
        out = {}
        for prop in meta.get("checks", [meta["property"]]):
            t = time.time()
            p = subprocess.run([os.path.join(HERE, "vcheck"), prop, "--tier", tier], capture_output=True, text=True, cwd=HERE)
            viol = [l for l in p.stdout.splitlines() if l.startswith("VIOLATION")]
            out[prop] = {"exit": p.returncode, "violations": len(viol), "confirmed_by_native_replay": sum(1 for l in viol if not l.rstrip().endswith("no-failing-input-found")),
                         "first": viol[0][:300] if viol else None, "secs": round(time.time() - t, 1), "summary": p.stdout.strip().splitlines()[-1][:200] if p.stdout.strip() else ""}
        res[sid] = {"property": meta["property"], "results": out, "caught": any(v["exit"] == 1 for v in out.values())}
    finally:
        subprocess.run(["git", "-C", REPO, "checkout", "--", "."], check=True)
    print(sid, json.dumps(res[sid])[:400], flush=True)
out_path = os.path.join(HERE, "seeded", "RESULTS_%s.json" % tier)
allres = json.load(open(out_path)) if os.path.exists(out_path) else {}
allres.update(res)
json.dump(allres, open(out_path, "w"), indent=1, sort_keys=True)
# evidence files were rewritten by runs on changed trees: refresh them on the unchanged tree is the caller's job
