"""Contracts for C19: frame conditions of the public functions, checked on call-sequence templates.

Per-function frames (assigns nothing / fresh result / error state unchanged) are also part of every
kernel and block contract in the other modules.  Here every public function is run, on shared argument
objects, through the template

    r1 = f(x);  r2 = f(x);  g(x) for the other public functions;  an invalid call that raises;  r3 = f(x);
    shell parameters replaced through the setters + assign_norm_cont();  r4 = f(x)

with the obligations: arguments (arrays, lists, every attribute of every shell) bit-identical after each
step, numpy's error state and the module-level state of all gbasis modules unchanged, r2 = r3 = r1 exactly,
no result aliases an argument or an earlier result, and r4 equals the result for freshly built shells with
the new parameters (no stale state).  From the per-call frames the statement for arbitrary call sequences
follows by induction on the length of the sequence.
"""
import numpy as np

from engine import bind

from .common import make_shell, tag
from .coulomb import boys_stub
from .density import sym_dm


def shell_state(sh):
    out = {}
    for k, v in sh.__dict__.items():
        if isinstance(v, np.ndarray):
            out[k] = (id(v), v.shape, tuple(id(x) if not isinstance(x, (int, float, complex, np.generic)) else x for x in v.reshape(-1)))
        else:
            out[k] = v
    return out


def arr_state(a):
    if isinstance(a, np.ndarray):
        return (id(a), a.shape, tuple(id(x) if not isinstance(x, (int, float, complex, np.generic)) else x for x in a.reshape(-1)))
    if isinstance(a, list):
        return ("list", id(a), tuple(id(x) for x in a))
    return a


def module_state(mods):
    out = {}
    for name, mod in mods.items():
        for k, v in mod.__dict__.items():
            if k.startswith("__"):
                continue
            if isinstance(v, (dict, list, set)):
                out[name, k] = (id(v), repr(v)[:2000])
            else:
                out[name, k] = id(v)
    return out


def build_basis(M, pfx="", params=None):
    """two real shells (s and p, one primitive each) and, for the two-basis functions, a second basis"""
    params = params or {}
    A = params.get("A") if params.get("A") is not None else M.vec(pfx + "A", 3)
    B = params.get("B") if params.get("B") is not None else M.vec(pfx + "B", 3)
    ea = params.get("ea") if params.get("ea") is not None else M.vec(pfx + "a", 1, "pos")
    eb = params.get("eb") if params.get("eb") is not None else M.vec(pfx + "b", 1, "pos")
    da = params.get("da") if params.get("da") is not None else M.vec(pfx + "da", (1, 1), "pos")
    db = params.get("db") if params.get("db") is not None else M.vec(pfx + "db", (1, 1), "pos")
    s1 = make_shell(M, 0, A, da, ea, "cartesian")
    s2 = make_shell(M, 1, B, db, eb, "spherical")
    return [s1, s2], dict(A=A, B=B, ea=ea, eb=eb, da=da, db=db)


def public_calls(M, basis, extra):
    """name -> (callable on the shared objects, invalid call)"""
    m = M.mods
    pts, q, C, orders, dm, U = extra["pts"], extra["q"], extra["C"], extra["orders"], extra["dm"], extra["U"]
    nuc, Z = extra["nuc"], extra["Z"]
    calls = {
        "overlap_integral": (lambda: m["gbasis.integrals.overlap"].overlap_integral(basis), lambda: m["gbasis.integrals.overlap"].overlap_integral(basis, tol_screen=True)),
        "overlap_integral/screened": (lambda: m["gbasis.integrals.overlap"].overlap_integral(basis, tol_screen=extra["tol"]), lambda: m["gbasis.integrals.overlap"].overlap_integral(basis, tol_screen="x")),
        # float runs only: a tolerance of exactly zero is legal (nothing is screened; numpy warns about log(0))
        "overlap_integral/tol-zero": (lambda: m["gbasis.integrals.overlap"].overlap_integral(basis, tol_screen=0.0), lambda: m["gbasis.integrals.overlap"].overlap_integral(basis, tol_screen="x")),
        "overlap_integral/transform": (lambda: m["gbasis.integrals.overlap"].overlap_integral(basis, transform=U), lambda: m["gbasis.integrals.overlap"].overlap_integral([1])),
        "overlap_integral_asymmetric": (lambda: m["gbasis.integrals.overlap_asymm"].overlap_integral_asymmetric(basis, basis[:1]), lambda: m["gbasis.integrals.overlap_asymm"].overlap_integral_asymmetric(basis, 3)),
        "kinetic_energy_integral": (lambda: m["gbasis.integrals.kinetic_energy"].kinetic_energy_integral(basis), lambda: m["gbasis.integrals.kinetic_energy"].kinetic_energy_integral(None)),
        "momentum_integral": (lambda: m["gbasis.integrals.momentum"].momentum_integral(basis), lambda: m["gbasis.integrals.momentum"].momentum_integral([])),
        "angular_momentum_integral": (lambda: m["gbasis.integrals.angular_momentum"].angular_momentum_integral(basis), lambda: m["gbasis.integrals.angular_momentum"].angular_momentum_integral(5)),
        "moment_integral": (lambda: m["gbasis.integrals.moment"].moment_integral(basis, C, orders), lambda: m["gbasis.integrals.moment"].moment_integral(basis, C, orders.astype(float))),
        "point_charge_integral": (lambda: m["gbasis.integrals.point_charge"].point_charge_integral(basis, pts, q), lambda: m["gbasis.integrals.point_charge"].point_charge_integral(basis, pts, q[:0])),
        "nuclear_electron_attraction_integral": (lambda: m["gbasis.integrals.nuclear_electron_attraction"].nuclear_electron_attraction_integral(basis, pts, q), lambda: m["gbasis.integrals.nuclear_electron_attraction"].nuclear_electron_attraction_integral(basis, pts[0], q)),
        "electron_repulsion_integral": (lambda: m["gbasis.integrals.electron_repulsion"].electron_repulsion_integral(basis[:1] + basis[:1], notation="chemist"), lambda: m["gbasis.integrals.electron_repulsion"].electron_repulsion_integral(basis, notation="x")),
        "evaluate_basis": (lambda: m["gbasis.evals.eval"].evaluate_basis(basis, pts), lambda: m["gbasis.evals.eval"].evaluate_basis(basis, pts[0])),
        "evaluate_deriv_basis": (lambda: m["gbasis.evals.eval_deriv"].evaluate_deriv_basis(basis, pts, np.array([1, 0, 2])), lambda: m["gbasis.evals.eval_deriv"].evaluate_deriv_basis(basis, pts, np.array([1, -1, 0]))),
        "evaluate_deriv_basis/direct": (lambda: m["gbasis.evals.eval_deriv"].evaluate_deriv_basis(basis, pts, np.array([1, 0, 2]), deriv_type="direct"), lambda: m["gbasis.evals.eval_deriv"].evaluate_deriv_basis(basis, pts, np.array([3, 0, 0]), deriv_type="direct")),
        "evaluate_density": (lambda: m["gbasis.evals.density"].evaluate_density(dm, basis, pts, threshold=extra["thr"]), lambda: m["gbasis.evals.density"].evaluate_density(dm[:, :1], basis, pts)),
        "evaluate_posdef_kinetic_energy_density": (lambda: m["gbasis.evals.density"].evaluate_posdef_kinetic_energy_density(dm, basis, pts, threshold=extra["thr"]), lambda: m["gbasis.evals.density"].evaluate_posdef_kinetic_energy_density(dm, basis, pts[0])),
        "evaluate_density_using_evaluated_orbs": (lambda: m["gbasis.evals.density"].evaluate_density_using_evaluated_orbs(dm, extra["orbs"]), lambda: m["gbasis.evals.density"].evaluate_density_using_evaluated_orbs(dm, extra["orbs"][:2])),
        "evaluate_deriv_density": (lambda: m["gbasis.evals.density"].evaluate_deriv_density(np.array([1, 0, 1]), dm, basis, pts), lambda: m["gbasis.evals.density"].evaluate_deriv_density(np.array([1, 0, 1]), dm[:, :2], basis, pts)),
        "evaluate_density_gradient": (lambda: m["gbasis.evals.density"].evaluate_density_gradient(dm, basis, pts), lambda: m["gbasis.evals.density"].evaluate_density_gradient(dm[0], basis, pts)),
        "evaluate_density_laplacian": (lambda: m["gbasis.evals.density"].evaluate_density_laplacian(dm, basis, pts), lambda: m["gbasis.evals.density"].evaluate_density_laplacian(dm, basis, None)),
        "evaluate_density_hessian": (lambda: m["gbasis.evals.density"].evaluate_density_hessian(dm, basis, pts), lambda: m["gbasis.evals.density"].evaluate_density_hessian(dm, None, pts)),
        "evaluate_general_kinetic_energy_density/raises": (None, lambda: m["gbasis.evals.density"].evaluate_general_kinetic_energy_density(dm, basis, pts, "a")),
        "evaluate_stress_tensor": (lambda: m["gbasis.evals.stress_tensor"].evaluate_stress_tensor(dm, basis, pts, alpha=2, beta=1), lambda: m["gbasis.evals.stress_tensor"].evaluate_stress_tensor(dm, basis, pts, alpha=None)),
        "evaluate_ehrenfest_force": (lambda: m["gbasis.evals.stress_tensor"].evaluate_ehrenfest_force(dm, basis, pts, alpha=2, beta=1), lambda: m["gbasis.evals.stress_tensor"].evaluate_ehrenfest_force(dm, basis, pts, beta="b")),
        "electrostatic_potential": (lambda: m["gbasis.evals.electrostatic_potential"].electrostatic_potential(basis, dm, pts, nuc, Z), lambda: m["gbasis.evals.electrostatic_potential"].electrostatic_potential(basis, dm, pts, nuc, np.array(["x"]))),
    }
    return calls


class Purity:
    function = "every public integral / evaluation / density function (frame conditions on call sequences)"
    fp = True  # the same frame conditions on the unmodified float64 code for a few templates (bounded), incl. arguments
    fp_nsamp = (1, 1)  # that have no symbolic counterpart (a tolerance of exactly zero)
    fp_domain = {"zero_prob": 0.0}

    def fp_shapes(self, tier):
        return [dict(fn=n) for n in ("overlap_integral/tol-zero", "overlap_integral/screened", "evaluate_density_gradient", "electrostatic_potential")]

    def shapes(self, tier):
        names = ["overlap_integral", "overlap_integral/screened", "overlap_integral/transform", "overlap_integral_asymmetric", "kinetic_energy_integral", "momentum_integral",
                 "angular_momentum_integral", "moment_integral", "point_charge_integral", "nuclear_electron_attraction_integral",
                 "electron_repulsion_integral", "evaluate_basis", "evaluate_deriv_basis", "evaluate_deriv_basis/direct", "evaluate_deriv_density",
                 "evaluate_density_using_evaluated_orbs",
                 "evaluate_density_gradient", "evaluate_density_laplacian", "evaluate_density_hessian", "evaluate_stress_tensor",
                 "evaluate_ehrenfest_force", "electrostatic_potential"]
        return [dict(fn=n) for n in names] + [dict(fn="*raising-only*")]

    def run(self, shape, M):
        pc = M.mods["gbasis.integrals.point_charge"]
        er = M.mods["gbasis.integrals.electron_repulsion"]
        boys = boys_stub(M)
        with bind.patched((pc.PointChargeIntegral, "boys_func", staticmethod(boys)), (er.ElectronRepulsionIntegral, "boys_func", staticmethod(boys))):
            self._run(shape, M)

    def _run(self, shape, M):
        basis, params = build_basis(M)
        nfun = 1 + 3
        extra = dict(pts=M.vec("R", (1, 3)), q=M.vec("q", 1), C=M.vec("C", 3), orders=np.array([[1, 0, 1]]), dm=sym_dm(M, nfun), U=M.vec("U", (2, nfun)),
                     nuc=M.vec("Rn", (1, 3)), Z=M.vec("Z", 1), thr=M.scalar(M.pos("thr")), orbs=M.vec("orb", (nfun, 1)), tol=M.scalar(M.pos("eps")))
        calls = public_calls(M, basis, extra)
        tracked = dict(extra)
        tracked["basis"] = basis

        def snapshot():
            return ({k: arr_state(v) for k, v in tracked.items()}, [shell_state(s) for s in basis], np.geterr(), module_state(M.mods))

        def frame(name, before):
            after = snapshot()
            M.true(name + "/frame/arguments", after[0] == before[0], "argument arrays / lists unchanged: %s" % [k for k in before[0] if before[0][k] != after[0][k]])
            M.true(name + "/frame/shells", after[1] == before[1], "every attribute of every shell unchanged")
            M.true(name + "/frame/errstate", after[2] == before[2], "numpy error state %s -> %s" % (before[2], after[2]))
            np.seterr(**before[2])
            M.true(name + "/frame/module-state", after[3] == before[3], "module-level state of gbasis changed: %s" % [k for k in before[3] if before[3].get(k) != after[3].get(k)][:3])

        def same(name, r, ref):
            M.true(name + "/shape", np.shape(r) == np.shape(ref), "")
            if np.shape(r) != np.shape(ref):
                return
            ra, fa = np.asarray(r, dtype=object), np.asarray(ref, dtype=object)
            for idx in np.ndindex(*fa.shape):
                if isinstance(ra[idx], str) or isinstance(fa[idx], str):
                    M.true(name + "/equal" + tag(idx), ra[idx] == fa[idx], "same outcome (raised) on repetition")
                else:
                    M.eq(name + "/equal" + tag(idx), ra[idx], fa[idx])

        def no_alias(name, r, others):
            if not isinstance(r, np.ndarray):
                return
            bad = [k for k, o in others.items() if isinstance(o, np.ndarray) and np.shares_memory(r, o)]
            M.true(name + "/fresh", not bad, "result shares memory with %s" % bad)

        fn = shape["fn"]
        if fn == "*raising-only*":
            for name, (f, invalid) in calls.items():
                if M.symbolic and name == "overlap_integral/tol-zero":
                    continue
                before = snapshot()
                M.raises("purity/%s/invalid-call-raises" % name, invalid, (TypeError, ValueError, AttributeError, IndexError, AssertionError))
                frame("purity/%s/after-raise" % name, before)
            return
        f0, invalid = calls[fn]
        may_raise = fn in ("evaluate_density", "evaluate_posdef_kinetic_energy_density")

        def f():
            # the two threshold functions legitimately raise ValueError for a negative value beyond the threshold;
            # on such a path the frame conditions are what is checked and the outcome must repeat
            if not may_raise:
                return f0()
            try:
                return f0()
            except ValueError:
                return np.array(["raised ValueError"], dtype=object)

        base = "purity/" + fn
        s0 = snapshot()
        r1 = f()
        frame(base + "/call1", s0)
        argarrays = {k: v for k, v in extra.items()}
        for i, s in enumerate(basis):
            for k, v in s.__dict__.items():
                argarrays["shell%d.%s" % (i, k)] = v
        no_alias(base + "/call1", r1, argarrays)
        r2 = f()
        frame(base + "/call2", s0)
        same(base + "/repeat", r2, r1)
        no_alias(base + "/call2", r2, dict(argarrays, r1=r1))
        # other calls on the same objects, then an invalid call
        for other in ("overlap_integral", "evaluate_basis", "moment_integral", "electrostatic_potential", "kinetic_energy_integral",
                      "evaluate_density_using_evaluated_orbs"):
            if other != fn:
                calls[other][0]()
        frame(base + "/after-other-calls", s0)
        M.raises(base + "/invalid-call-raises", invalid, (TypeError, ValueError, AttributeError, IndexError, AssertionError))
        frame(base + "/after-raise", s0)
        r3 = f()
        same(base + "/after-history", r3, r1)
        # parameter update through the setters, renormalisation, and the same call again
        new_e, new_d = M.vec("g", 1, "pos"), M.vec("h", (1, 1), "pos")
        basis[0].exps = new_e
        basis[0].coeffs = new_d
        basis[0].assign_norm_cont()
        r4 = f()
        fresh_basis, _ = build_basis(M, params=dict(params, ea=new_e, da=new_d))
        fresh_calls = public_calls(M, fresh_basis, extra)
        if may_raise:
            return
        ref = fresh_calls[fn][0]()
        same(base + "/after-parameter-update", r4, ref)
        # the same through an in-place edit of the shell's own exponent array, then renormalisation
        newer = M.vec("k", 1, "pos")
        basis[1].exps[:] = newer
        basis[1].assign_norm_cont()
        r5 = f()
        fresh2, _ = build_basis(M, params=dict(params, ea=new_e, da=new_d, eb=M.array(np.array(newer, dtype=object).copy())))
        ref2 = public_calls(M, fresh2, extra)[fn][0]()
        same(base + "/after-in-place-parameter-update", r5, ref2)
