"""Contracts for C02 / C07 / C08: derivative recursion, kinetic, moment, momentum and
angular-momentum shell blocks."""
import numpy as np

from engine import bind
from specs import basisfn
from specs.gauss1d import Gauss1D

from .common import Frame, Seen, cart_components, tag
from .overlap import spec_of_shell, sym_shell_pair


class DiffIntermediate:
    fp = True  # also sampled on the unmodified float64 code (bounded stand-in for rounding)
    """out[k,j,i,ax,pb,pa] = int (x-A)^i e^{-a(x-A)^2} d^k/dx^k[(x-B)^j e^{-b(x-B)^2}] dx for all
    k <= order_diff_max, i <= a_max, j <= b_max (padding by the derivative order is internal)"""

    function = "gbasis.integrals._diff_operator_int._compute_differential_operator_integrals_intermediate"

    def shapes(self, tier):
        if tier == "quick":
            return [dict(od=2, am=3, bm=3, K=[1, 1]), dict(od=1, am=4, bm=2, K=[1, 1]), dict(od=2, am=1, bm=1, K=[2, 2]),
                    dict(od=3, am=0, bm=2, K=[1, 1]), dict(od=2, am=5, bm=0, K=[1, 1])]
        out = [dict(od=od, am=5, bm=5, K=[1, 1]) for od in range(1, 5)]
        out += [dict(od=2, am=7, bm=1, K=[1, 1]), dict(od=4, am=0, bm=0, K=[1, 1]), dict(od=1, am=0, bm=5, K=[1, 1]),
                dict(od=2, am=2, bm=2, K=[2, 1]), dict(od=2, am=1, bm=2, K=[1, 2]), dict(od=3, am=1, bm=1, K=[3, 2])]
        return out

    def run(self, shape, M):
        mod = M.mods["gbasis.integrals._diff_operator_int"]
        Ka, Kb = shape["K"]
        od, am, bm = shape["od"], shape["am"], shape["bm"]
        if Ka == Kb == 1:
            P, AB = M.vec("P", 3), M.vec("AB", 3)
            a, b = M.pos("a"), M.pos("b")
            A = M.array(P + AB * (b / (a + b)))
            B = M.array(P - AB * (a / (a + b)))
            ea, eb = M.array([a]), M.array([b])
        else:
            B = M.vec("B", 3)
            A = M.array(B + M.vec("AB", 3))
            ea, eb = M.vec("a", Ka, "pos"), M.vec("b", Kb, "pos")
        fr = Frame(A=A, B=B, ea=ea, eb=eb)
        out = mod._compute_differential_operator_integrals_intermediate(od, A, am, ea, B, bm, eb)
        fr.check(M, "diff_intermediate", out)
        out = M.shaped("diff_intermediate/shape", out, (od + 1, bm + 1, am + 1, 3, Kb, Ka))
        sA, sB, sa, sb = map(M.to_spec, (A, B, ea, eb))
        for pa in range(Ka):
            for pb in range(Kb):
                for ax in range(3):
                    g = Gauss1D(M.SF, sa[pa], sA[ax], sb[pb], sB[ax])
                    for k in range(od + 1):
                        for j in range(bm + 1):
                            for i in range(am + 1):
                                M.eq("diff_intermediate/out" + tag((k, j, i, ax, pb, pa)), out[k, j, i, ax, pb, pa], basisfn.d1d(g, i, j, k))


class ComposeDiff:
    """_compute_differential_operator_integrals = cleanup(intermediate(max order, centres, max components))"""

    function = "gbasis.integrals._diff_operator_int._compute_differential_operator_integrals"
    sparse = True

    def shapes(self, tier):
        return [dict(la=2, lb=1, orders=[[2, 0, 0], [0, 2, 0], [0, 0, 2]]), dict(la=0, lb=3, orders=[[1, 0, 0], [0, 1, 0], [0, 0, 1]]),
                dict(la=3, lb=0, orders=[[0, 3, 1]])]

    def run(self, shape, M):
        mod = M.mods["gbasis.integrals._diff_operator_int"]
        ca, cb = np.array(cart_components(shape["la"])), np.array(cart_components(shape["lb"]))
        orders = np.array(shape["orders"])
        Ka, Kb, Ma, Mb = 2, 3, 2, 1
        A, B = M.vec("A", 3), M.vec("B", 3)
        ea, eb = M.vec("a", Ka, "pos"), M.vec("b", Kb, "pos")
        coa, cob = M.vec("da", (Ka, Ma)), M.vec("db", (Kb, Mb))
        na, nb = M.vec("na", (len(ca), Ka)), M.vec("nb", (len(cb), Kb))
        seen = Seen("compose_diff/pre@callees")

        def inter_stub(order_max, coord_a, am, exps_a, coord_b, bm, exps_b):
            seen["inter"] = (order_max, coord_a, am, exps_a, coord_b, bm, exps_b)
            seen["table"] = M.vec("T", (int(order_max) + 1, int(bm) + 1, int(am) + 1, 3, exps_b.size, exps_a.size), "opq")
            return seen["table"]

        def clean_stub(table, o, aa, ca_, na_, ab, cb_, nb_):
            seen["clean"] = (table, o, aa, ca_, na_, ab, cb_, nb_)
            seen["res"] = M.vec("R", (len(o), ca_.shape[1], len(aa), cb_.shape[1], len(ab)), "opq")
            return seen["res"]

        with bind.patched((mod, "_compute_differential_operator_integrals_intermediate", inter_stub),
                          (mod, "_cleanup_intermediate_integrals", clean_stub)):
            out = mod._compute_differential_operator_integrals(orders, A, ca, ea, coa, na, B, cb, eb, cob, nb)
        i = seen["inter"]
        M.true("compose_diff/pre@intermediate/centres", i[1] is A and i[4] is B and i[3] is ea and i[6] is eb, "centres / exponents forwarded")
        M.true("compose_diff/pre@intermediate/order_max", int(i[0]) >= int(orders.max()), "")
        M.true("compose_diff/pre@intermediate/a_max", int(i[2]) >= int(ca.max()), "")
        M.true("compose_diff/pre@intermediate/b_max", int(i[5]) >= int(cb.max()), "")
        c = seen["clean"]
        M.true("compose_diff/pre@cleanup", c[0] is seen["table"] and c[1] is orders and c[2] is ca and c[3] is coa and c[4] is na
               and c[5] is cb and c[6] is cob and c[7] is nb, "table and arguments passed on in order")
        M.true("compose_diff/result", out is seen["res"], "")


def _pair_shapes(tier, lq, lt, extra=True):
    out = []
    lmax = lq if tier == "quick" else lt
    for la in range(lmax + 1):
        for lb in range(lmax + 1):
            out.append(dict(la=la, lb=lb, K=[1, 1], M=[1, 1]))
    if tier == "quick" and lt > lq:
        # the top of the range as well (a constant or table that is right for small l only shows there)
        out += [dict(la=lt, lb=0, K=[1, 1], M=[1, 1]), dict(la=0, lb=lt, K=[1, 1], M=[1, 1]), dict(la=lt, lb=1, K=[1, 1], M=[1, 1])]
    if extra:
        out += [dict(la=1, lb=0, K=[2, 1], M=[2, 1]), dict(la=0, lb=1, K=[1, 2], M=[1, 2]), dict(la=1, lb=1, K=[2, 2], M=[1, 1])]
        from .overlap import TYPE_SHAPES

        out += [dict(s) for s in TYPE_SHAPES if s["la"] <= lmax and s["lb"] <= lmax]
        out += [dict(la=0, lb=0, K=[3, 4], M=[3, 2])]  # the largest primitive / segment counts the properties name
        if tier == "thorough":
            out += [dict(la=2, lb=1, K=[2, 2], M=[2, 1]), dict(la=1, lb=0, K=[4, 1], M=[1, 3])]
    return out


class BlockBase:
    fp = True
    lq, lt = 2, 4

    def fp_shapes(self, tier):
        # ordinary samples plus the edges of the stated ranges (see overlap.stress_domain)
        return self.shapes(tier) + [dict(la=0, lb=0, K=[1, 1], M=[1, 1], profile="far-diffuse"), dict(la=1, lb=1, K=[1, 1], M=[1, 1], profile="far-diffuse"),
                                    dict(la=0, lb=0, K=[1, 1], M=[1, 1], profile="tight-close"), dict(la=1, lb=0, K=[1, 1], M=[1, 1], profile="tight-close")]

    def fp_domain_for(self, shape):
        from .overlap import stress_domain

        return stress_domain(shape.get("profile"))

    def shapes(self, tier):
        return _pair_shapes(tier, self.lq, self.lt)

    def run(self, shape, M):
        s1, s2 = sym_shell_pair(M, shape["la"], shape["lb"], *shape["K"], *shape["M"], types=shape.get("types"))
        fr = Frame(c1=s1.coord, e1=s1.exps, d1=s1.coeffs, c2=s2.coord, e2=s2.exps, d2=s2.coeffs, n1=s1.norm_cont, n2=s2.norm_cont)
        out, extra = self.call(M, s1, s2)
        fr.check(M, self.tagname, out)
        sa, sb = spec_of_shell(M, s1), spec_of_shell(M, s2)
        self.check(M, out, sa, sb, extra)


class KineticBlock(BlockBase):
    """KineticEnergyIntegral.construct_array_contraction[m1,c1,m2,c2] = <phi~1| -1/2 Laplacian |phi~2>"""

    function = "gbasis.integrals.kinetic_energy.KineticEnergyIntegral.construct_array_contraction"
    tagname = "kinetic_block"
    lq, lt = 3, 5

    def call(self, M, s1, s2):
        return M.mods["gbasis.integrals.kinetic_energy"].KineticEnergyIntegral.construct_array_contraction(s1, s2), None

    def check(self, M, out, sa, sb, extra):
        out = M.shaped("kinetic_block/shape", out, (sa.M, sa.L, sb.M, sb.L))
        for idx, v in basisfn.kinetic_block(M.SF, sa, sb).items():
            M.eq("kinetic_block/out" + tag(idx), out[idx], v)


class MomentumBlock(BlockBase):
    """MomentumIntegral.construct_array_contraction[m1,c1,m2,c2,ax] = <phi~1| -i d/dx_ax |phi~2>"""

    function = "gbasis.integrals.momentum.MomentumIntegral.construct_array_contraction"
    tagname = "momentum_block"
    lq, lt = 2, 4

    def call(self, M, s1, s2):
        return M.mods["gbasis.integrals.momentum"].MomentumIntegral.construct_array_contraction(s1, s2), None

    def check(self, M, out, sa, sb, extra):
        out = M.shaped("momentum_block/shape", out, (sa.M, sa.L, sb.M, sb.L, 3))
        for ax in range(3):
            for idx, v in basisfn.momentum_block(M.SF, sa, sb, ax).items():
                M.eq("momentum_block/out" + tag(idx + (ax,)), out[idx + (ax,)], v)


class AngMomBlock(BlockBase):
    """AngularMomentumIntegral.construct_array_contraction[m1,c1,m2,c2,ax] = <phi~1| -i (r x grad)_ax |phi~2>
    about the coordinate origin"""

    function = "gbasis.integrals.angular_momentum.AngularMomentumIntegral.construct_array_contraction"
    tagname = "angmom_block"
    lq, lt = 2, 4

    def shapes(self, tier):
        # centres must be generic w.r.t. the origin: use the general parametrisation throughout
        out = _pair_shapes(tier, self.lq, self.lt)
        for s in out:
            s["origin"] = True
        return out

    def run(self, shape, M):
        from .overlap import make_shell

        la, lb = shape["la"], shape["lb"]
        (Ka, Kb), (Ma, Mb) = shape["K"], shape["M"]
        A, B = M.vec("A", 3), M.vec("B", 3)
        La, Lb = (la + 1) * (la + 2) // 2, (lb + 1) * (lb + 2) // 2
        ty = shape.get("types") or ("cartesian", "cartesian")
        s1 = make_shell(M, la, A, M.vec("da", (Ka, Ma)), M.vec("a", Ka, "pos"), coord_type=ty[0], norm_cont=M.vec("n1", (Ma, La), "pos"))
        s2 = make_shell(M, lb, B, M.vec("db", (Kb, Mb)), M.vec("b", Kb, "pos"), coord_type=ty[1], norm_cont=M.vec("n2", (Mb, Lb), "pos"))
        fr = Frame(c1=s1.coord, e1=s1.exps, d1=s1.coeffs, c2=s2.coord, e2=s2.exps, d2=s2.coeffs)
        out = M.mods["gbasis.integrals.angular_momentum"].AngularMomentumIntegral.construct_array_contraction(s1, s2)
        fr.check(M, "angmom_block", out)
        sa, sb = spec_of_shell(M, s1), spec_of_shell(M, s2)
        out = M.shaped("angmom_block/shape", out, (sa.M, sa.L, sb.M, sb.L, 3))
        zero = [M.SF.num(0)] * 3
        for ax in range(3):
            for idx, v in basisfn.angmom_block(M.SF, sa, sb, ax, zero).items():
                M.eq("angmom_block/out" + tag(idx + (ax,)), out[idx + (ax,)], v)


class MomentBlock:
    fp = True  # also sampled on the unmodified float64 code (bounded stand-in for rounding)

    def fp_shapes(self, tier):
        return self.shapes(tier) + [dict(la=0, lb=0, orders=[[0, 0, 0], [1, 0, 1]], profile="far-diffuse"), dict(la=1, lb=0, orders=[[0, 0, 0], [2, 0, 0]], profile="tight-close"),
                                    dict(la=0, lb=1, K=[2, 1], M=[1, 1], orders=[[0, 1, 0]], profile="tight-close")]

    def fp_domain_for(self, shape):
        from .overlap import stress_domain

        return stress_domain(shape.get("profile"))
    """Moment.construct_array_contraction(s1, s2, origin, orders)[m1,c1,m2,c2,d] =
    <phi~1| (x-X)^i (y-Y)^j (z-Z)^k |phi~2> for orders[d] = (i,j,k), in the order given; argument validation"""

    function = "gbasis.integrals.moment.Moment.construct_array_contraction"

    def shapes(self, tier):
        out = [dict(la=1, lb=1, orders=[[0, 0, 0], [1, 0, 2], [0, 0, 0]]), dict(la=2, lb=0, orders=[[2, 1, 0]]),
               dict(la=0, lb=2, orders=[[0, 0, 3], [1, 1, 1]]), dict(la=0, lb=0, orders=[[4, 0, 0], [0, 4, 4]])]
        # generalized shells with different segment counts on the two sides, either order of angular momenta
        out += [dict(la=0, lb=2, types=["spherical", "cartesian"], orders=[[0, 0, 0], [1, 0, 1]]), dict(la=2, lb=0, types=["cartesian", "spherical"], orders=[[0, 2, 0]]),
                dict(la=0, lb=1, K=[2, 1], M=[2, 1], orders=[[1, 0, 0], [0, 1, 1]]), dict(la=1, lb=0, K=[1, 2], M=[1, 2], orders=[[0, 0, 2]]),
                dict(la=1, lb=1, K=[1, 2], M=[2, 3], orders=[[0, 1, 0]])]
        if tier == "thorough":
            for la in range(0, 5):
                for lb in range(0, 5):
                    out.append(dict(la=la, lb=lb, orders=[[(la + lb) % 5, 2, 0], [0, 1, 4]]))
            out.append(dict(la=2, lb=2, orders=[[i, j, k] for i in (0, 3) for j in (1, 4) for k in (0, 2)]))
            out += [dict(la=0, lb=2, K=[2, 2], M=[1, 2], orders=[[2, 0, 1]]), dict(la=2, lb=1, K=[2, 1], M=[3, 1], orders=[[1, 1, 0]])]
        return out

    def run(self, shape, M):
        mom = M.mods["gbasis.integrals.moment"]
        K, Mseg = shape.get("K", [1, 1]), shape.get("M", [1, 1])
        s1, s2 = sym_shell_pair(M, shape["la"], shape["lb"], K[0], K[1], Mseg[0], Mseg[1], types=shape.get("types"))
        if K == [1, 1]:
            # origin relative to the weighted centre keeps every 1-D quantity a single term
            a, b = s1.exps[0], s2.exps[0]
            P = (s1.coord * a + s2.coord * b) / (a + b)
            C = M.array(P - M.vec("X", 3))
        else:
            C = M.vec("X", 3)
        orders = np.array(shape["orders"])
        fr = Frame(C=C, orders=orders, c1=s1.coord, e1=s1.exps, d1=s1.coeffs, c2=s2.coord, e2=s2.exps, d2=s2.coeffs)
        out = mom.Moment.construct_array_contraction(s1, s2, C, orders)
        fr.check(M, "moment_block", out)
        sa, sb = spec_of_shell(M, s1), spec_of_shell(M, s2)
        out = M.shaped("moment_block/shape", out, (sa.M, sa.L, sb.M, sb.L, len(orders)))
        sC = M.to_spec(C)
        for d, o in enumerate(orders):
            for idx, v in basisfn.moment_block(M.SF, sa, sb, sC, [int(x) for x in o]).items():
                M.eq("moment_block/out" + tag(idx + (d,)), out[idx + (d,)], v)
        if shape["la"] == 1 and shape["lb"] == 1:
            f = mom.Moment.construct_array_contraction
            M.raises("moment_block/rejects/coord-list", lambda: f(s1, s2, [0.0, 0.0, 0.0], orders), TypeError)
            M.raises("moment_block/rejects/coord-2d", lambda: f(s1, s2, np.zeros((1, 3)), orders), TypeError)
            M.raises("moment_block/rejects/orders-1d", lambda: f(s1, s2, C, np.array([1, 0, 0])), TypeError)
            M.raises("moment_block/rejects/orders-float", lambda: f(s1, s2, C, np.array([[1.0, 0.0, 0.0]])), TypeError)
            M.raises("moment_block/rejects/shell", lambda: f(s1, None, C, orders), TypeError)


class MomentLemmas:
    """on the real block routine: order (0,0,0) reproduces the overlap block; moving the origin by s changes
    the moments by the binomial expansion in lower moments  M_o(C+s) = sum_{k<=o} C(o,k) (-s)^(o-k) M_k(C)"""

    function = "gbasis.integrals.moment.Moment.construct_array_contraction (lemmas)"

    def shapes(self, tier):
        out = [dict(la=1, lb=0, order=[2, 0, 1]), dict(la=1, lb=1, order=[1, 1, 0]), dict(la=0, lb=2, order=[0, 3, 0])]
        if tier == "thorough":
            out += [dict(la=2, lb=2, order=[2, 1, 1]), dict(la=3, lb=1, order=[4, 0, 0]), dict(la=0, lb=0, order=[2, 2, 2])]
        return out

    def run(self, shape, M):
        from math import comb
        import itertools

        mom = M.mods["gbasis.integrals.moment"]
        ov = M.mods["gbasis.integrals.overlap"]
        s1, s2 = sym_shell_pair(M, shape["la"], shape["lb"], 1, 1, 1, 1)
        a, b = s1.exps[0], s2.exps[0]
        P = (s1.coord * a + s2.coord * b) / (a + b)
        C = M.array(P - M.vec("X", 3))
        sh = M.vec("S", 3)
        C2 = M.array(C + sh)
        o = shape["order"]
        lower = [list(k) for k in itertools.product(*[range(x + 1) for x in o])]
        base = mom.Moment.construct_array_contraction(s1, s2, C, np.array(lower))
        moved = mom.Moment.construct_array_contraction(s1, s2, C2, np.array([o]))
        zero = mom.Moment.construct_array_contraction(s1, s2, C2, np.array([[0, 0, 0]]))
        S = ov.Overlap.construct_array_contraction(s1, s2)
        ssh = M.to_spec(sh)
        zero = M.shaped("moment_lemma/shape-of-order-zero", zero, tuple(S.shape) + (1,))
        moved = M.shaped("moment_lemma/shape-of-moved", moved, tuple(S.shape) + (1,))
        base = M.shaped("moment_lemma/shape-of-lower-orders", base, tuple(S.shape) + (len(lower),))
        for idx in np.ndindex(*S.shape):
            M.eq("moment_lemma/order-zero-is-overlap" + tag(idx), zero[idx + (0,)], S[idx])
            tot = M.SF.num(0)
            for d, k in enumerate(lower):
                c = comb(o[0], k[0]) * comb(o[1], k[1]) * comb(o[2], k[2])
                f = M.SF.num(c)
                for ax in range(3):
                    e = o[ax] - k[ax]
                    if e:
                        f = f * (-ssh[ax]) ** e
                tot = tot + (M.to_spec(base)[idx + (d,)] if not M.symbolic else base[idx + (d,)]) * f
            M.eq("moment_lemma/origin-shift-binomial" + tag(idx), moved[idx + (0,)], tot)
