"""BOUNDED stand-ins on the unmodified float64 code (never counted as proved):

* Quadrature (C16): the property statement run literally -- uniform-grid trapezoid integration of the
  library's pointwise evaluations against its analytic integrals.
* GramBounds (C17): positivity / Schwarz bounds of the returned arrays 'up to rounding'.
"""
import numpy as np


def random_basis(M, rng, nshell, lmax, exp_range, spread, mods):
    cmod = mods["gbasis.contractions"]
    shells = []
    for _ in range(nshell):
        l = rng.randint(0, lmax)
        K = rng.randint(1, 3)
        Mn = rng.randint(1, 2)
        exps = np.array(sorted(np.exp(rng.uniform(np.log(exp_range[0]), np.log(exp_range[1]))) for _ in range(K)))
        coeffs = np.array([[rng.uniform(0.2, 1.0) * rng.choice((1, -1)) for _ in range(Mn)] for _ in range(K)])
        coord = np.array([rng.uniform(-spread, spread) for _ in range(3)])
        shells.append(cmod.GeneralizedContractionShell(l, coord, coeffs, exps, rng.choice(("cartesian", "spherical"))))
    return shells


class Quadrature:
    function = "evaluate_basis / evaluate_deriv_basis / evaluate_density / evaluate_posdef_kinetic_energy_density vs overlap / moment / kinetic integrals"
    fp = True
    fp_only = True
    bounded = True
    fp_nsamp = (2, 6)

    def fp_shapes(self, tier):
        return [dict(nshell=n, lmax=l) for n, l in ((1, 2), (2, 2), (3, 1))] + ([dict(nshell=2, lmax=4), dict(nshell=3, lmax=3)] if tier == "thorough" else [])

    shapes = fp_shapes

    def run(self, shape, M):
        if M.symbolic:
            return
        m = M.mods
        rng = M.sample_rng
        basis = random_basis(M, rng, shape["nshell"], shape["lmax"], (0.3, 3.0), 1.0, m)
        # trapezoid error ~ exp(-pi^2 / (alpha_max h^2)) times polynomial factors that grow with l: finer grid for l >= 3
        h, R = (0.25, 13.0) if shape["lmax"] <= 2 else (0.18, 12.6)
        ax = np.arange(-R, R + h / 2, h)
        X, Y, Z = np.meshgrid(ax, ax, ax, indexing="ij")
        pts = np.stack([X.ravel(), Y.ravel(), Z.ravel()], axis=1)
        w = h ** 3
        phi = m["gbasis.evals.eval"].evaluate_basis(basis, pts)
        S = m["gbasis.integrals.overlap"].overlap_integral(basis)
        Sq = (phi * w) @ phi.T
        scale = 1.0
        M.true("quad/overlap", float(np.max(np.abs(Sq - S))) < 2e-8 * scale, "max |quadrature - analytic| = %.3g" % np.max(np.abs(Sq - S)))
        C = np.array([rng.uniform(-1, 1) for _ in range(3)])
        orders = np.array([[1, 0, 0], [0, 1, 1], [2, 0, 0], [0, 0, 2]])
        Mo = m["gbasis.integrals.moment"].moment_integral(basis, C, orders)
        d = pts - C
        for k, o in enumerate(orders):
            f = (d[:, 0] ** o[0]) * (d[:, 1] ** o[1]) * (d[:, 2] ** o[2])
            Mq = (phi * (w * f)) @ phi.T
            M.true("quad/moment%s" % "".join(map(str, o)), float(np.max(np.abs(Mq - Mo[:, :, k]))) < 1e-7, "max diff %.3g" % np.max(np.abs(Mq - Mo[:, :, k])))
        T = m["gbasis.integrals.kinetic_energy"].kinetic_energy_integral(basis)
        Tq = np.zeros_like(T)
        grads = []
        for e in np.identity(3, dtype=int):
            g = m["gbasis.evals.eval_deriv"].evaluate_deriv_basis(basis, pts, e)
            grads.append(g)
            Tq += 0.5 * (g * w) @ g.T
        M.true("quad/kinetic", float(np.max(np.abs(Tq - T))) < 1e-7 * max(1.0, float(np.max(np.abs(T)))), "max diff %.3g (scale %.3g)" % (np.max(np.abs(Tq - T)), np.max(np.abs(T))))
        n = S.shape[0]
        A = np.array([[rng.uniform(-1, 1) for _ in range(n)] for _ in range(n)])
        gamma = A @ A.T
        rho = m["gbasis.evals.density"].evaluate_density(gamma, basis, pts, threshold=1e-6)
        M.true("quad/density-trace", abs(float(np.sum(rho) * w) - float(np.trace(gamma @ S))) < 1e-7 * max(1.0, abs(np.trace(gamma @ S))), "")
        del phi
        tau = m["gbasis.evals.density"].evaluate_posdef_kinetic_energy_density(gamma, basis, pts, threshold=1e-6)
        M.true("quad/kinetic-density-trace", abs(float(np.sum(tau) * w) - float(np.trace(gamma @ T))) < 1e-7 * max(1.0, abs(np.trace(gamma @ T))), "")


class GramBounds:
    function = "overlap / kinetic / point-charge / electron-repulsion arrays as Gram matrices"
    fp = True
    fp_only = True
    bounded = True

    def fp_shapes(self, tier):
        return [dict(nshell=n, lmax=l, eri=e) for n, l, e in ((2, 2, True), (4, 3, False), (5, 2, False), (3, 1, True))]

    shapes = fp_shapes

    def run(self, shape, M):
        if M.symbolic:
            return
        m = M.mods
        rng = M.sample_rng
        near = rng.random() < 0.3
        basis = random_basis(M, rng, shape["nshell"], shape["lmax"] if not shape["eri"] else min(shape["lmax"], 2), (0.05, 50.0) if not shape["eri"] else (0.1, 10.0),
                             0.05 if near else 2.0, m)
        S = m["gbasis.integrals.overlap"].overlap_integral(basis)
        ev = np.linalg.eigvalsh((S + S.T) / 2)
        M.true("gram/overlap-symmetric", float(np.max(np.abs(S - S.T))) <= 1e-12, "")
        M.true("gram/overlap-psd", ev[0] >= -1e-9 * max(1.0, ev[-1]), "min eigenvalue %.3g" % ev[0])
        M.true("gram/overlap-elements-at-most-one", float(np.max(np.abs(S))) <= 1 + 1e-9, "max |S| = %.12g" % np.max(np.abs(S)))
        T = m["gbasis.integrals.kinetic_energy"].kinetic_energy_integral(basis)
        ev = np.linalg.eigvalsh((T + T.T) / 2)
        M.true("gram/kinetic-psd", ev[0] >= -1e-9 * max(1.0, ev[-1]), "min eigenvalue %.3g" % ev[0])
        pts = np.array([[rng.uniform(-2, 2) for _ in range(3)] for _ in range(2)])
        pts[0] = basis[0].coord
        V = m["gbasis.integrals.point_charge"].point_charge_integral(basis, pts, np.array([1.0, 2.5]))
        for k in range(2):
            ev = np.linalg.eigvalsh((V[:, :, k] + V[:, :, k].T) / 2)
            M.true("gram/point-charge-nsd%d" % k, ev[-1] <= 1e-9 * max(1.0, -ev[0]), "max eigenvalue %.3g" % ev[-1])
        if shape["eri"]:
            E = m["gbasis.integrals.electron_repulsion"].electron_repulsion_integral(basis, notation="chemist")
            n = E.shape[0]
            Emat = E.reshape(n * n, n * n)
            ev = np.linalg.eigvalsh((Emat + Emat.T) / 2)
            M.true("gram/eri-psd", ev[0] >= -1e-6 * max(1.0, ev[-1]), "min eigenvalue %.3g (max %.3g)" % (ev[0], ev[-1]))
            diag = np.einsum("ijij->ij", E)
            M.true("gram/eri-diagonal-nonnegative", float(np.min(diag)) >= -1e-6 * float(np.max(np.abs(diag))), "")
            bound = np.sqrt(np.abs(diag))[:, :, None, None] * np.sqrt(np.abs(diag))[None, None, :, :]
            M.true("gram/eri-schwarz", bool(np.all(np.abs(E) <= bound * (1 + 1e-6) + 1e-6 * float(np.max(np.abs(diag))))), "")


class ERIIllConditioned:
    """BOUNDED (float): the fixed list of ill-conditioned quartets of the property statement - a tight pair of
    core s functions (exponents up to 1e5) against a pair of diffuse d / f functions, in both orders of the two
    pairs.  The block returned by the public block routine is compared with the specification (Coulomb integrals
    defined by differentiation of the Boys base integral, evaluated at 50 digits): error at most 1e-6 of the
    Schwarz scale sqrt((ab|ab)(cd|cd)) of each element."""

    function = "gbasis.integrals.electron_repulsion.ElectronRepulsionIntegral.construct_array_contraction (ill-conditioned list)"
    fp = True
    fp_only = True
    bounded = True
    fp_nsamp = (1, 1)

    LIST = [(t, l, e) for t in (1e5, 1e4, 1e3, 1e2) for (l, e) in ((3, 0.2), (3, 0.5), (2, 0.1), (2, 0.3))]

    def fp_shapes(self, tier):
        sel = self.LIST if tier == "thorough" else [q for q in self.LIST if q in ((1e5, 3, 0.2), (1e3, 3, 0.2), (1e5, 2, 0.1))]
        out = [dict(tight=t, lket=l, eket=e, order=o) for t, l, e in sel for o in ("ss|XX", "XX|ss")]
        # the core s function paired with a diffuse function of the other shell type: (s X | X X)
        # (equal maxima but different totals of angular momentum in the two pairs; the f case loses 8 % of the Schwarz
        #  scale when the pair of smaller total goes first; quick tier: every 7th of the 600 components)
        mixed = [(1e5, 3, 0.3)] if tier == "quick" else [(t, l, e) for t in (1e5, 1e4, 1e3) for (l, e) in ((2, 0.1), (3, 0.3))]
        out += [dict(tight=t, lket=l, eket=e, order=o, **({"stride": 7} if tier == "quick" else {})) for t, l, e in mixed for o in ("sX|XX", "XX|sX")]
        if tier == "thorough":
            # either order inside the pair that holds the core function, and quartets whose pairs tie in total angular momentum
            out += [dict(tight=t, lket=l, eket=e, order=o) for t, l, e in ((1e5, 2, 0.1), (1e5, 3, 0.3)) for o in ("Xs|XX", "XX|Xs")]
            ties = {"s(1e5)f|fs": [(0, 1e5, 0), (3, 0.4, 2), (3, 0.3, 1), (0, 0.5, 1)], "s(1e5)f|dp": [(0, 1e5, 0), (3, 0.4, 2), (2, 0.3, 1), (1, 0.5, 1)],
                    "s(1e5)d|ds": [(0, 1e5, 0), (2, 0.26, 2), (2, 0.2, 1), (0, 0.34, 1)], "p(2e3)p(1e3)|pp": [(1, 2e3, 0), (1, 1e3, 0), (1, 0.3, 1), (1, 0.5, 1)]}
            for lab, q in ties.items():
                out += [dict(label=lab, quad=q), dict(label="pairs-exchanged:" + lab, quad=q[2:] + q[:2])]
        return out

    shapes = fp_shapes

    def run(self, shape, M):
        if M.symbolic:
            return
        from specs import basisfn, coulomb
        from .common import cart_components

        m = M.mods
        Sh = m["gbasis.contractions"].GeneralizedContractionShell
        E = m["gbasis.integrals.electron_repulsion"].ElectronRepulsionIntegral
        SF = M.SF
        mp = SF.mp

        def sh(l, e, c):
            return Sh(l, np.array(c, dtype=float), np.array([1.0]), np.array([float(e)]), "cartesian")

        A, B = [0.0, 0.0, 0.0], [0.3, -0.2, 0.5]
        if "quad" in shape:
            cen = [A, B, [0.1, 0.2, -0.1]]
            quad = [(int(l_), float(e_), cen[int(c_)]) for l_, e_, c_ in shape["quad"]]
            t, l, e = 0.0, 0, 0.0
        else:
            t, l, e = shape["tight"], shape["lket"], shape["eket"]
            quad = [(0, t, A), (0, t * 0.3, A), (l, e, B), (l, e * 1.7, B)]
        order = shape.get("order", "")
        if order in ("sX|XX", "XX|sX", "Xs|XX", "XX|Xs"):
            quad[1] = (l, e * 1.3, [0.1, 0.2, -0.1])
        if order in ("Xs|XX", "XX|Xs"):
            quad[0], quad[1] = quad[1], quad[0]
        if order in ("XX|ss", "XX|sX", "XX|Xs"):
            quad = quad[2:] + quad[:2]
        shells = [sh(*q) for q in quad]
        x = E.construct_array_contraction(*shells)
        for i, s in enumerate(shells):
            shp = [1] * 8
            shp[2 * i], shp[2 * i + 1] = s.norm_cont.shape
            x = x * s.norm_cont.reshape(shp)
        ex = [mp.mpf(float(s.exps[0])) for s in shells]
        cs = [[mp.mpf(float(v)) for v in s.coord] for s in shells]
        f = coulomb.two_electron(SF, *ex, *cs)
        fab = coulomb.two_electron(SF, ex[0], ex[1], ex[0], ex[1], cs[0], cs[1], cs[0], cs[1])
        fcd = coulomb.two_electron(SF, ex[2], ex[3], ex[2], ex[3], cs[2], cs[3], cs[2], cs[3])
        comps = [cart_components(q[0]) for q in quad]
        norms = [{c: basisfn.prim_norm(SF, ex[i], c) for c in comps[i]} for i in range(4)]
        worst = (mp.mpf(0), None)
        import itertools

        for count, idx in enumerate(itertools.product(*[range(len(c)) for c in comps])):
            if count % shape.get("stride", 1):
                continue
            cc = [comps[i][idx[i]] for i in range(4)]
            nn = norms[0][cc[0]] * norms[1][cc[1]] * norms[2][cc[2]] * norms[3][cc[3]]
            ref = f(*cc) * nn
            sw = SF.sqrt(abs(fab(cc[0], cc[1], cc[0], cc[1]) * (norms[0][cc[0]] * norms[1][cc[1]]) ** 2
                             * fcd(cc[2], cc[3], cc[2], cc[3]) * (norms[2][cc[2]] * norms[3][cc[3]]) ** 2))
            got = mp.mpf(float(x[0, idx[0], 0, idx[1], 0, idx[2], 0, idx[3]]))
            rel = abs(got - ref) / (sw + mp.mpf("1e-280"))
            if rel > worst[0] or got != got:
                worst = (rel if got == got else mp.mpf("inf"), idx)
        X = "spdf"[l]
        lab = order.replace("ss", "s(%.0e)s" % t).replace("sX", "s(%.0e)X" % t).replace("Xs", "Xs(%.0e)" % t).replace("X", X)
        name = "eri_illcond/%s,diffuse=%.1f/within-1e-6-of-Schwarz" % (lab, e) if "quad" not in shape else "eri_illcond/%s/within-1e-6-of-Schwarz" % shape["label"]
        M.true(name, worst[0] <= mp.mpf("1e-6"), "worst |block - exact| / Schwarz = %s at component index %s" % (mp.nstr(worst[0], 4), worst[1]))


class DependencyContracts:
    """BOUNDED check of the contracts ASSUMED on scipy.special (the symbolic runs replace these functions by exact integer
    versions): on the whole argument range gbasis can reach for l <= 10 and derivative orders <= 8 the installed functions
    return n!!, n!, C(n,k), P(n,k) and the physicists' Hermite polynomials to 1e-13 relative, in the calling conventions
    gbasis uses (scalars, integer arrays, exact=False / exact=True, negative arguments of factorial2 -> 0 except (-1)!! = 1)."""

    function = "scipy.special.factorial2 / factorial / comb / perm / eval_hermite (dependency contracts assumed by the symbolic runs)"
    fp = True
    fp_only = True
    bounded = True
    fp_nsamp = (1, 1)

    def fp_shapes(self, tier):
        return [dict(what="factorials"), dict(what="binomials"), dict(what="hermite")]

    shapes = fp_shapes

    def run(self, shape, M):
        if M.symbolic:
            return
        import math
        from fractions import Fraction

        import scipy.special as sp

        gutils = M.mods.get("gbasis.utils")
        worst = 0.0
        bad = []

        def rel(got, want):
            return abs(float(got) - float(want)) / max(1.0, abs(float(want)))

        if shape["what"] == "factorials":
            def dfact(n):
                if n == -1:
                    return 1
                if n < -1:
                    return 0
                r = 1
                while n > 1:
                    r *= n
                    n -= 2
                return r

            f2s = [("scipy.special.factorial2", sp.factorial2)] + ([("gbasis.utils.factorial2", gutils.factorial2)] if gutils is not None and hasattr(gutils, "factorial2") else [])
            for nm, f2 in f2s:
                # scipy's own value at -1 differs between releases (0 or 1); gbasis' wrapper maps anything <= 0 to 1
                for n in range(-1 if nm.startswith("gbasis") else 0, 44):
                    for form, val in (("scalar", lambda: f2(n)), ("array", lambda: f2(np.array([n, n]))[0]), ("2d", lambda: f2(np.array([[n]]))[0, 0])):
                        try:
                            e = rel(val(), dfact(n))
                        except Exception as ex:  # noqa
                            bad.append("%s(%d) [%s] raised %s" % (nm, n, form, type(ex).__name__))
                            continue
                        worst = max(worst, e)
                        if e > 1e-13:
                            bad.append("%s(%d) [%s] off by %.2g" % (nm, n, form, e))
            e = float(sp.factorial2(np.array(-1)))
            if e not in (0.0, 1.0):
                bad.append("scipy.special.factorial2(-1) = %r (the wrapper expects a value <= 0 or 1)" % e)
            for n in range(0, 41):
                for form, val in (("scalar", lambda: sp.factorial(n)), ("array", lambda: sp.factorial(np.array([n]))[0]), ("exact", lambda: sp.factorial(n, exact=True))):
                    e = rel(val(), math.factorial(n))
                    worst = max(worst, e)
                    if e > 1e-13:
                        bad.append("factorial(%d) [%s] off by %.2g" % (n, form, e))
        elif shape["what"] == "binomials":
            for n in range(0, 41):
                for k in range(0, n + 3):
                    want = math.comb(n, k)
                    for form, val in (("scalar", lambda: sp.comb(n, k)), ("array", lambda: sp.comb(np.array([n]), np.array([k]))[0]), ("exact", lambda: sp.comb(n, k, exact=True))):
                        e = rel(val(), want)
                        worst = max(worst, e)
                        if e > 1e-13:
                            bad.append("comb(%d,%d) [%s] off by %.2g" % (n, k, form, e))
                    wantp = math.perm(n, k) if k <= n else 0
                    for form, val in (("scalar", lambda: sp.perm(n, k)), ("array", lambda: sp.perm(np.array([n]), np.array([k]))[0])):
                        e = rel(val(), wantp)
                        worst = max(worst, e)
                        if e > 1e-13:
                            bad.append("perm(%d,%d) [%s] off by %.2g" % (n, k, form, e))
        else:
            rng = M.sample_rng
            for n in range(0, 13):
                # physicists' Hermite polynomial by its recurrence, in exact rationals
                for _ in range(6):
                    x = Fraction(rng.randint(-4000, 4000), 1000)
                    h0, h1 = Fraction(1), 2 * x
                    for k in range(1, n):
                        h0, h1 = h1, 2 * x * h1 - 2 * k * h0
                    want = h0 if n == 0 else h1
                    got = sp.eval_hermite(n, float(x))
                    e = abs(got - float(want)) / max(1.0, abs(float(want)))
                    worst = max(worst, e)
                    if e > 1e-12:
                        bad.append("eval_hermite(%d, %s) off by %.2g" % (n, x, e))
        M.true("dependency/%s" % shape["what"], not bad, "worst relative deviation %.3g; %s" % (worst, "; ".join(bad[:5])))
