"""Contracts that are UNBOUNDED in the angular momenta / orders: generic-element execution of the real recursion
kernels (engine/generic.py).  The specification of the table is the family of recurrences its entries obey
(Obara-Saika relations for the one-dimensional multipole-moment integrals S[k, j, i] = <x_A^i | x_C^k | x_B^j>):

    S[0,0,0]   = sqrt(pi / p) exp(-mu X_AB^2)
    S[k,j,i+1] = X_PA S[k,j,i] + (i S[k,j,i-1] + j S[k,j-1,i] + k S[k-1,j,i]) / 2p
    S[k,j+1,i] = X_PB S[k,j,i] + (i S[k,j,i-1] + j S[k,j-1,i] + k S[k-1,j,i]) / 2p
    S[k+1,j,i] = X_PC S[k,j,i] + (i S[k,j,i-1] + j S[k,j-1,i] + k S[k-1,j,i]) / 2p

with p = a + b, mu = a b / p, P = (a A + b B) / p.  That these relations characterise the integrals is trusted
calculus; the per-shape contract contracts.moment_int:MomentIntermediate proves, independently, that the very same
real function equals the CLOSED-FORM Gaussian moments for every extent up to 8 (so the two specifications are tied
together on that range).  What is proved here, for ALL extents n_k, n_b, n_a >= 0: every element the code writes is
the right-hand side of one of the relations at that index, every element it reads was written before, every integer
index is in range, aligned slices have equal length, and at return the whole table has been written."""
import itertools

import numpy as np

from engine import alg, bind
from engine import generic as G
from engine import sym as S


def _sizes_premise(env, sizes):
    return [env(n) >= 0 for n in sizes]


def _case_premise(C, sizes):
    """the assumptions of one case of the comparisons the code made on its extents (those about the extents alone)"""
    only = [c for c in C.assumed if all(n in sizes for n in set(c[1].t) | set(c[2].t))]
    return (lambda env: [G._cons_z3(only, env)]) if only else None


def _cex(mdl):
    """z3 model text '[na = 3, nk = 0, ...]' -> counterexample record (extents for the native replay)"""
    if not mdl:
        return None
    env = {}
    for part in mdl.strip("[]").split(","):
        if "=" in part:
            k, v = part.split("=", 1)
            try:
                env[k.strip()] = str(int(v.strip()))
            except ValueError:
                pass
    return {"env": env}



def check_events(M, C, sizes, tails, candidates, base_case, pfx="anyL", domain=None, returned=None, full_box=None, extra_prem=None, tid=0, domains=None,
                 returned_on_domain_only=False, row_axes=None):
    """verification conditions for the recorded run.
       candidates(idx, tail) -> list of (description, rhs Sym, [Affs that must be >= 0])  specification relations that may define idx
       base_case(idx, tail)  -> Sym or None   (elements the specification gives in closed form / by a callee's contract)
       domain(env, k, j, i)  -> z3 Bool       the part of the table the specification speaks about (default: all of it)
       returned              -> read events describing the region handed back to the caller (default: the whole table, full_box)"""
    import z3

    from engine import subst

    if any(len(e["loops"]) > 1 for e in C.events):
        raise alg.Undecided("nested loops with symbolic bounds: the ordering argument of the read obligations covers single loops only")
    allwrites = [e for e in C.events if e["kind"] == "write"]
    writes = [e for e in allwrites if e.get("tid", 0) == tid]
    reads = [e for e in C.events if e["kind"] == "read" and e.get("wtid", 0) == tid]
    M.true(pfx + "/events", len(writes) >= 2 and len(reads) >= 2, "%d slice assignments, %d table reads recorded" % (len(writes), len(reads)))
    env, _cache = G._z3env()
    prem = _sizes_premise(env, sizes) + list(extra_prem(env) if extra_prem else [])
    if tid < len(getattr(C, "tables", [])):
        # the generic reading of 0:1 (and of an integer index 0) takes every extent of the table to be at least 1
        for d, D in enumerate(C.tables[tid]):
            st, mdl = G.check_valid(prem, D.z3(env) >= 1)
            M._rec("%s/table-extent-%d-is-positive[%r]" % (pfx, d, D), st, "z3-lia", G.LAST_SECS[0], detail=mdl or "", cex=_cex(mdl))
    dom0 = domain or (lambda env_, *ix: z3.BoolVal(True))
    doms0 = dict(domains or {})
    doms0.setdefault(tid, dom0)
    # row_axes: {table id: [(concrete axis, its length), ...]} - the concrete axes (rows of component arrays) the domain of that
    # table depends on; such a domain takes rows=(r0, r1, ...).  An event that does not say which row it serves counts for all.
    row_axes = dict(row_axes or {})

    def rows_of(t, known):
        """all assignments of the row axes of table t that agree with the known coordinates {axis: value}"""
        axes = row_axes.get(t, [])
        return [combo for combo in itertools.product(*[range(n) for _k, n in axes]) if all(known.get(k, v) == v for (k, _n), v in zip(axes, combo))]

    def dom_at(t, env_, target, rows):
        f = doms0.get(t, dom0)
        return f(env_, *target, rows=rows) if row_axes.get(t) else f(env_, *target)

    def dom_any(t, env_, target, known=None):
        if not row_axes.get(t):
            return dom_at(t, env_, target, None)
        return z3.Or([dom_at(t, env_, target, rows) for rows in rows_of(t, known or {})])

    dom = lambda env_, *target: dom_any(tid, env_, list(target))
    doms = {t: (lambda env_, *target, _t=t: dom_any(_t, env_, list(target))) for t in doms0}

    for n, w in enumerate(writes):
        name = "%s/stmt%02d[%s]" % (pfx, n, ",".join(repr(e) for e in w["idx"]))
        target = [e.z3(env) for e in w["idx"]]
        wprem = prem + [G._cons_z3(w["cons"], env), dom(env, *target)]
        sol0 = z3.Solver()
        sol0.add(z3.And(wprem))
        if sol0.check() == z3.unsat:
            M._rec(name + "/writes-nothing-the-specification-speaks-about", "discharged", "z3-lia", G.LAST_SECS[0], detail="empty for all extents", vacuous=True)
            continue
        for e, D in w["bounds"]:
            st, mdl = G.check_valid(prem + [G._cons_z3(w["cons"], env)], z3.And(e.z3(env) >= 0, e.z3(env) < D.z3(env)))
            M._rec(name + "/index-in-range[%r]" % e, st, "z3-lia", G.LAST_SECS[0], detail=mdl or "", cex=_cex(mdl))
        for la, ra in w.get("lens", []):
            pv = z3.Int("q")
            inl = z3.And([la.lo.z3(env) + pv < ub.z3(env) for ub in la.ubs])
            inr = z3.And([ra.lo.z3(env) + pv < ub.z3(env) for ub in ra.ubs])
            st, mdl = G.check_valid(prem + [G._cons_z3(G.loop_cons(w["loops"]), env), pv >= 0], inl == inr)
            M._rec(name + "/aligned-slices-equal-length", st, "z3-lia", G.LAST_SECS[0], detail=mdl or "", cex=_cex(mdl))
        for ax in w.get("len1", []):
            one = z3.And([ax.lo.z3(env) < ub.z3(env) for ub in ax.ubs] + [z3.Not(z3.And([ax.lo.z3(env) + 1 < ub.z3(env) for ub in ax.ubs]))])
            st, mdl = G.check_valid(prem + [G._cons_z3(G.loop_cons(w["loops"]), env)], one)
            M._rec(name + "/broadcast-axis-has-exactly-one-element", st, "z3-lia", G.LAST_SECS[0], detail=mdl or "", cex=_cex(mdl))
        # generic positions / loop variables that the constraints pin to one value (a slice such as 1:2 has at most one
        # element): substitute them, in the index and in the value
        forced = {}
        for v in sorted(G._vars(w["cons"], w["idx"]) - set(sizes)):
            c = sol0.model().eval(env(v), model_completion=True).as_long()
            if G.check_valid(prem + [G._cons_z3(w["cons"], env)], env(v) == c)[0] == "discharged":
                forced[v] = c

        def pin(a):
            return G.Aff({nm: cf for nm, cf in a.t.items() if nm not in forced}, a.c + sum(cf * forced[nm] for nm, cf in a.t.items() if nm in forced))

        Cx = alg.ctx()
        senv = {Cx.byname[nm]: alg.Value.const(c) for nm, c in forced.items() if nm in Cx.byname}
        if forced:
            # atoms whose index mentions a pinned variable are the atoms at the pinned index
            for key, (symb, aidx, atail) in list(C.atoms.items()):
                if any(nm in forced for e in aidx for nm in e.t):
                    new = C.named_atom(key[0], *(tuple(pin(e) for e in aidx) + (atail,)))
                    vs = S.expand(symb)
                    (mono,) = vs.n.keys()
                    ((sidx, _e),) = Cx.items(mono)
                    senv[sidx] = S.expand(new)
        idx = tuple(pin(e) for e in w["idx"])
        tshape = tuple(max(t[d] for t in tails) + 1 for d in range(len(tails[0])))
        vnd = w["value"].ndim
        kept = w.get("kept")
        if kept is None:
            kept = {k: len(tshape) - k for k in range(len(tshape))}  # concrete axes last
        tfix = w.get("tfix") or {}
        if any(w["value"].shape[vnd - sl] != tshape[k] for k, sl in kept.items()) or set(kept) | set(tfix) != set(range(len(tshape))):
            M._rec(name + "/value-has-the-trailing-shape-of-the-table", "failed", "run", 0.0, cex={"env": {}},
                   detail="shape %s, the table's concrete axes are %s (points / primitives / segments / rows lost or duplicated)" % (w["value"].shape, tshape))
            continue
        for tail in tails:
            if any(tail[k] != v for k, v in tfix.items()):
                continue  # this statement writes another row
            vpos = [0] * vnd
            for k, sl in kept.items():
                vpos[vnd - sl] = tail[k]
            got = w["value"][tuple(vpos)]
            vg = subst.substitute_all(S.expand(S.lift(got)), senv)
            base = base_case(idx, tail)
            if base is not None:
                M.eq(name + "/base-case" + str(list(tail)), S.Sym.of_value(vg), base)
                continue
            matched = None
            for desc, rhs, nonneg in candidates(idx, tail):
                if alg.v_equal(vg, subst.substitute_all(S.expand(S.lift(rhs)), senv)):
                    matched = (desc, nonneg)
                    break
            M._rec(name + "/value-is-a-relation-of-the-specification" + str(list(tail)), "discharged" if matched else "failed", "polyid", 0.0,
                   detail=("matches " + matched[0]) if matched else "no relation of the specification gives this value at this index",
                   got=alg.fmt(vg, 8), cex={"env": {}} if not matched else None)
            if matched and tail == tails[0]:
                for e in matched[1]:
                    st, mdl = G.check_valid(wprem, e.z3(env) >= 0)
                    M._rec(name + "/relation-applied-inside-the-table[%r>=0]" % e, st, "z3-lia", G.LAST_SECS[0], detail=mdl or "", cex=_cex(mdl))

    def written_before(r, rprem, label, rrows=None):
        target = [e.z3(env) for e in r["idx"]]
        alts = []
        rt = r.get("tid", tid)
        rdom = (lambda env_, *tg: dom_at(rt, env_, list(tg), rrows)) if (row_axes.get(rt) and rrows is not None) else doms.get(rt, dom)
        for w in [x for x in allwrites if x.get("tid", 0) == r.get("tid", tid)]:
            rl = {l[0]: l for l in r["loops"]}
            common = [l for l in w["loops"] if l[0] in rl]
            wt = None
            if common:
                lid, tname = common[-1][0], common[-1][1]
                alts.append(G.region_formula(w, target, env, sizes, order=(lid, tname, r["seq"])))
            elif r["seq"] is None or w["seq"] < r["seq"]:
                alts.append(G.region_formula(w, target, env, sizes))
        st, mdl = G.check_valid(rprem, z3.And(z3.Or(alts) if alts else z3.BoolVal(False), rdom(env, *target)), timeout_ms=60000)
        M._rec(label, st, "z3-lia", G.LAST_SECS[0], detail=mdl or "", cex=_cex(mdl))

    # every element read (for a target the specification speaks about) was written earlier and lies in the domain
    for n, r in enumerate(reads):
        wtarget = [e.z3(env) for e in r["widx"]]
        label = "%s/read%02d[%s]@stmt-seq%d/written-before" % (pfx, n, ",".join(repr(e) for e in r["idx"]), r["seq"])
        rt = r.get("tid", tid)
        if not row_axes.get(tid) and not row_axes.get(rt):
            rprem = prem + [G._cons_z3(r["wcons"], env), dom(env, *wtarget)]
            written_before(r, rprem, label)
        else:
            # per row of the target this read serves: target in its domain for that row => element read in ITS domain for the row
            # it is read at (fixed by the index, or the row aligned with the target's, or - unknown - every row)
            for wrows in (rows_of(tid, r.get("wrows") or {}) if row_axes.get(tid) else [None]):
                rprem = prem + [G._cons_z3(r["wcons"], env), dom_at(tid, env, wtarget, wrows)]
                known = dict(r.get("tfix") or {})
                wknown = dict(r.get("wrows") or {})
                if wrows is not None:
                    wknown.update({k: v for (k, _n), v in zip(row_axes[tid], wrows)})
                for k, tk in (r.get("rmap") or {}).items():
                    if k not in known and tk in wknown:
                        known[k] = wknown[tk]
                for rrows in (rows_of(rt, known) if row_axes.get(rt) else [None]):
                    written_before(r, rprem, label + ("@rows%s->%s" % (list(wrows) if wrows is not None else "", list(rrows) if rrows is not None else "")), rrows)
        for e, D in r["bounds"]:
            st, mdl = G.check_valid(prem + [G._cons_z3(r["wcons"], env)], z3.And(e.z3(env) >= 0, e.z3(env) < D.z3(env)))
            M._rec("%s/read%02d/index-in-range[%r]" % (pfx, n, e), st, "z3-lia", G.LAST_SECS[0], detail=mdl or "", cex=_cex(mdl))

    # what is handed back to the caller has been written and lies in the domain
    if returned is not None:
        for n, r in enumerate(returned):
            r = dict(r)
            r["seq"] = None
            rp = prem + [G._cons_z3(r["cons"], env)]
            if returned_on_domain_only:
                # the returned view is a box that also contains elements the specification does not speak about (the caller
                # selects inside the domain): the claim is about the returned elements that lie in the domain
                rp = rp + [doms.get(r.get("tid", tid), dom)(env, *[e.z3(env) for e in r["idx"]])]
            rt = r.get("tid", tid)
            for rrows in (rows_of(rt, r.get("tfix") or {}) if row_axes.get(rt) else [None]):
                written_before(r, rp, "%s/returned-region%d%s/every-%selement-written-and-specified" % (pfx, n, ("@rows%s" % list(rrows)) if rrows is not None else "",
                                                                                                       "specified " if returned_on_domain_only else ""), rrows)
    else:
        kk, jj, ii = z3.Int("ck"), z3.Int("cj"), z3.Int("ci")
        box = full_box(env, kk, jj, ii)
        st, mdl = G.check_valid(prem + box, z3.Or([G.region_formula(w, [kk, jj, ii], env, sizes) for w in writes]), timeout_ms=60000)
        M._rec(pfx + "/coverage/every-element-written", st, "z3-lia", G.LAST_SECS[0], detail=mdl or "", cex=_cex(mdl))


def check_spec_reads(M, C, sizes, pfx, extra_prem=None):
    """the indices with which the run read a callee's table (GSpecTable) lie inside that table"""
    env, _ = G._z3env()
    prem = _sizes_premise(env, sizes) + list(extra_prem(env) if extra_prem else [])
    n = 0
    for k, r in enumerate(getattr(C, "spec_reads", [])):
        for e, D in r["bounds"]:
            n += 1
            st, mdl = G.check_valid(prem + [G._cons_z3(r["cons"], env)], z3_and_range(e, D, env))
            M._rec("%s/read-of-%s%02d[%s]/index-in-range[%r]" % (pfx, r.get("table", "callee"), k, ",".join(repr(x) for x in r["idx"]), e), st, "z3-lia", G.LAST_SECS[0],
                   detail=mdl or "", cex=_cex(mdl))
    return n


def z3_and_range(e, D, env):
    import z3

    return z3.And(e.z3(env) >= 0, e.z3(env) < D.z3(env))


class MomentRecursionAnyL:
    """_compute_multipole_moment_integrals_intermediate fills integrals[k, j, i] = S[k, j, i] for ALL
    order_moment_max, angmom_b_max, angmom_a_max >= 0 (generic-element execution; see the module docstring)"""

    function = "gbasis.integrals._moment_int._compute_multipole_moment_integrals_intermediate (any angular momentum, any moment order)"

    def shapes(self, tier):
        return [dict(K=[2, 1])]

    def native(self, shape, M):
        """replay of a counterexample: the extents the solver found (or 2, 3, 3) are run natively and the whole table is
        compared with the closed-form Gaussian moments (the specification of the per-shape contract)"""
        from specs.gauss1d import Gauss1D

        mod = M.mods["gbasis.integrals._moment_int"]

        def ext(name, default):
            try:
                return max(0, min(8, int(M.env[name])))
            except Exception:
                return default

        nk, nb, na = ext("nk", 2), ext("nb", 3), ext("na", 3)
        Ka, Kb = shape["K"]
        A, B, Cm = M.vec("A", 3), M.vec("B", 3), M.vec("C", 3)
        ea, eb = M.vec("a", Ka, "pos"), M.vec("b", Kb, "pos")
        try:
            out = mod._compute_multipole_moment_integrals_intermediate(Cm, nk, A, na, ea, B, nb, eb)
        except Exception as e:  # noqa
            M.true(M.wanted or "anyL/native-table-equals-closed-form", False, "extents (n_k, n_b, n_a) = (%d, %d, %d): the native function raised %s: %s" % (nk, nb, na, type(e).__name__, e))
            return
        sA, sB, sC, sa, sb = map(M.to_spec, (A, B, Cm, ea, eb))
        worst, where = 0.0, None
        for pa in range(Ka):
            for pb in range(Kb):
                for ax in range(3):
                    g = Gauss1D(M.SF, sa[pa], sA[ax], sb[pb], sB[ax], sC[ax])
                    for k in range(nk + 1):
                        for j in range(nb + 1):
                            for i in range(na + 1):
                                want = g.G(i, j, k)
                                got = out[k, j, i, ax, pb, pa]
                                err = abs(float(got) - float(want)) / max(1.0, abs(float(want)))
                                if not (err <= worst):
                                    worst, where = err, (k, j, i, ax, pb, pa)
        name = M.wanted or "anyL/native-table-equals-closed-form"
        M.true(name, worst <= 1e-9, "extents (n_k, n_b, n_a) = (%d, %d, %d): worst relative deviation of the native table from the closed-form moments %.3g at %s"
               % (nk, nb, na, worst, where))

    def run(self, shape, M):
        if not M.symbolic:
            return self.native(shape, M)
        import z3

        mod = M.mods["gbasis.integrals._moment_int"]
        Ka, Kb = shape["K"]
        A, B, Cm = M.vec("A", 3), M.vec("B", 3), M.vec("C", 3)
        ea, eb = M.vec("a", Ka, "pos"), M.vec("b", Kb, "pos")
        sizes = ["nk", "nb", "na"]

        def body(C_):
            with bind.patched((mod, "np", G.GNp(mod.np)), (mod, "range", G.grange)):
                return mod._compute_multipole_moment_integrals_intermediate(Cm, G.Aff.var("nk"), A, G.Aff.var("na"), ea, B, G.Aff.var("nb"), eb)

        cases = G.run_cases(sizes, body)
        for cn, (C, out) in enumerate(cases):
            self._check_case(M, C, out, sizes, Ka, Kb, A, B, Cm, ea, eb, "anyL" if len(cases) == 1 else "anyL/case%d" % cn)

    def _check_case(self, M, C, out, sizes, Ka, Kb, A, B, Cm, ea, eb, pfx):
        M.true(pfx + "/returns-the-table", isinstance(out, G.GArray) and [d.key() for d in out.dims] == [(G.Aff.var(n) + 1).key() for n in sizes]
               and out.tail == (3, Kb, Ka), "shape (n_k+1, n_b+1, n_a+1, 3, K_b, K_a)")
        case_prem = _case_premise(C, sizes)
        tails = list(itertools.product(range(3), range(Kb), range(Ka)))

        def geom(x, pb, pa):
            a, b = ea[pa], eb[pb]
            p = a + b
            Px = (a * A[x] + b * B[x]) / p
            return dict(p=p, PA=Px - A[x], PB=Px - B[x], PC=Px - Cm[x])

        def candidates(idx, tail):
            out_ = []
            g = geom(*tail)
            for axis in (2, 1, 0):
                if idx[axis].is_const() and idx[axis].c == 0:
                    continue
                low = list(idx)
                low[axis] = low[axis] - 1
                lk, lj, li = low
                rhs = (g["PC"], g["PB"], g["PA"])[axis] * C.atom(lk, lj, li, tail)
                acc = S.lift(0)
                for ax2, coef in ((2, li), (1, lj), (0, lk)):
                    if coef.is_const() and coef.c == 0:
                        continue
                    nb_ = [lk, lj, li]
                    nb_[ax2] = nb_[ax2] - 1
                    acc = acc + coef.to_sym() * C.atom(nb_[0], nb_[1], nb_[2], tail)
                out_.append(("the %s-raising relation" % "kji"[axis], rhs + acc / (g["p"] * 2), [low[axis]]))
            return out_

        def base_case(idx, tail):
            if all(e.is_const() and e.c == 0 for e in idx):
                a, b = ea[tail[2]], eb[tail[1]]
                return M.SF.sqrt(M.SF.pi / (a + b)) * M.SF.exp(-(a * b / (a + b)) * (A[tail[0]] - B[tail[0]]) * (A[tail[0]] - B[tail[0]]))
            return None

        import z3

        check_events(M, C, sizes, tails, candidates, base_case, pfx=pfx, extra_prem=case_prem,
                     full_box=lambda env, k, j, i: [k >= 0, k <= env("nk"), j >= 0, j <= env("nb"), i >= 0, i <= env("na")])


class DiffRecursionAnyL:
    """_compute_differential_operator_integrals_intermediate, for ALL order_diff_max >= 1, angmom_b_max, angmom_a_max >= 0:
    with D[k, j, i] = int (x-A)^i e^{-a(x-A)^2} d^k/dx^k [(x-B)^j e^{-b(x-B)^2}] dx the specification is

        D[0, j, i]   = S[0, j, i]                              (the overlap table: contract of the callee, MomentRecursionAnyL)
        D[k+1, j, i] = 2a D[k, j, i+1] - i D[k, j, i-1]         (integration by parts)

    on the domain i <= n_a + n_d - k (each derivative order costs one unit of the padded a-extent; what the code
    leaves outside that domain is never specified, never read for a specified element and never returned); the
    function returns the region i <= n_a, which lies inside the domain and has been written completely."""

    function = "gbasis.integrals._diff_operator_int._compute_differential_operator_integrals_intermediate (any angular momentum, any derivative order)"

    def shapes(self, tier):
        return [dict(K=[2, 1])]

    def native(self, shape, M):
        from specs import basisfn
        from specs.gauss1d import Gauss1D

        mod = M.mods["gbasis.integrals._diff_operator_int"]

        def ext(name, default, lo=0):
            try:
                return max(lo, min(6, int(M.env[name])))
            except Exception:
                return default

        nd, nb, na = ext("nd", 3, 1), ext("nb", 2), ext("na", 3)
        Ka, Kb = shape["K"]
        A, B = M.vec("A", 3), M.vec("B", 3)
        ea, eb = M.vec("a", Ka, "pos"), M.vec("b", Kb, "pos")
        try:
            out = mod._compute_differential_operator_integrals_intermediate(nd, A, na, ea, B, nb, eb)
        except Exception as e:  # noqa
            M.true(M.wanted or "anyLdiff/native-table-equals-closed-form", False, "extents (n_d, n_b, n_a) = (%d, %d, %d): the native function raised %s: %s" % (nd, nb, na, type(e).__name__, e))
            return
        sA, sB, sa, sb = map(M.to_spec, (A, B, ea, eb))
        worst, where = 0.0, None
        ok_shape = tuple(out.shape) == (nd + 1, nb + 1, na + 1, 3, Kb, Ka)
        if ok_shape:
            for pa in range(Ka):
                for pb in range(Kb):
                    for ax in range(3):
                        g = Gauss1D(M.SF, sa[pa], sA[ax], sb[pb], sB[ax])
                        for k in range(nd + 1):
                            for j in range(nb + 1):
                                for i in range(na + 1):
                                    want = basisfn.d1d(g, i, j, k)
                                    err = abs(float(out[k, j, i, ax, pb, pa]) - float(want)) / max(1.0, abs(float(want)))
                                    if not (err <= worst):
                                        worst, where = err, (k, j, i, ax, pb, pa)
        M.true(M.wanted or "anyLdiff/native-table-equals-closed-form", ok_shape and worst <= 1e-9,
               "extents (n_d, n_b, n_a) = (%d, %d, %d): shape %s, worst relative deviation from the closed form %.3g at %s" % (nd, nb, na, tuple(out.shape), worst, where))

    def run(self, shape, M):
        if not M.symbolic:
            return self.native(shape, M)
        import z3

        mod = M.mods["gbasis.integrals._diff_operator_int"]
        Ka, Kb = shape["K"]
        A, B = M.vec("A", 3), M.vec("B", 3)
        ea, eb = M.vec("a", Ka, "pos"), M.vec("b", Kb, "pos")
        sizes = ["nd", "nb", "na"]
        nd, nb, na = (G.Aff.var(n) for n in sizes)
        def body(C_):
            seen_ = {}

            def callee(coord_moment, order_moment_max, coord_a, angmom_a_max, exps_a, coord_b, angmom_b_max, exps_b):
                seen_["args"] = (coord_moment, order_moment_max, coord_a, angmom_a_max, exps_a, coord_b, angmom_b_max, exps_b)
                return G.GSpecTable([G.Aff.of(order_moment_max) + 1, G.Aff.of(angmom_b_max) + 1, G.Aff.of(angmom_a_max) + 1], (3, Kb, Ka), "S0")

            with bind.patched((mod, "np", G.GNp(mod.np)), (mod, "range", G.grange), (mod, "_compute_multipole_moment_integrals_intermediate", callee)):
                return mod._compute_differential_operator_integrals_intermediate(nd, A, na, ea, B, nb, eb), seen_

        def setup(C_):
            C_.assumed.append(("ge", G.Aff.var("nd"), G.Aff.of(1)))  # precondition: at least one derivative

        cases = G.run_cases(sizes, body, setup)
        for cn, (C, (out, seen)) in enumerate(cases):
            self._check_case(M, C, out, seen, sizes, Ka, Kb, A, B, ea, eb, nd, nb, na, "anyLdiff" if len(cases) == 1 else "anyLdiff/case%d" % cn)

    def _check_case(self, M, C, out, seen, sizes, Ka, Kb, A, B, ea, eb, nd, nb, na, pfx):
        import z3

        a_ = seen.get("args")
        M.true(pfx + "/pre@moment-recursion/called", a_ is not None, "the overlap table is requested from the multipole-moment recursion")
        if a_ is None:
            return

        def same(x, ref):
            x, ref = np.asarray(x, dtype=object).reshape(-1), np.asarray(ref, dtype=object).reshape(-1)
            return x.shape == ref.shape and all(alg.v_equal(S.expand(S.lift(u)), S.expand(S.lift(v))) for u, v in zip(x, ref))

        M.true(pfx + "/pre@moment-recursion/args", G.Aff.of(a_[1]).key() == G.Aff.of(0).key() and G.Aff.of(a_[3]).key() == (na + nd).key()
               and G.Aff.of(a_[6]).key() == nb.key() and same(a_[2], A) and same(a_[5], B) and same(a_[4], ea) and same(a_[7], eb),
               "moment order 0, a-extent n_a + n_d, b-extent n_b, the two centres and exponent arrays forwarded")
        M.true(pfx + "/returns-a-view-of-the-table", isinstance(out, G.GVal) and len(out.reads) == 1, "the function returns a slice of the table it filled")
        if not isinstance(out, G.GVal):
            return
        tails = list(itertools.product(range(3), range(Kb), range(Ka)))

        def candidates(idx, tail):
            k, j, i = idx
            if k.is_const() and k.c == 0:
                return []
            a = ea[tail[2]]
            rhs = a * 2 * C.atom(k - 1, j, i + 1, tail)
            if not (i.is_const() and i.c == 0):
                rhs = rhs - i.to_sym() * C.atom(k - 1, j, i - 1, tail)
            return [("integration by parts (raising the derivative order)", rhs, [k - 1])]

        def base_case(idx, tail):
            k, j, i = idx
            if k.is_const() and k.c == 0:
                return C.named_atom("S0", G.Aff.of(0), j, i, tail)
            return None

        def domain(env, k, j, i):
            return z3.And(k >= 0, j >= 0, i >= 0, k <= env("nd"), j <= env("nb"), i <= env("na") + env("nd") - k)

        ret = out.reads[0]
        env0, _ = G._z3env()
        # the returned view: all derivative orders, all j, and exactly the a-extent n_a + 1
        want_idx = [(G.Aff.var("p6")).key(), (G.Aff.var("p5")).key(), (G.Aff.var("p4")).key()]
        M.true(pfx + "/returned-view/index-map", [e.key() for e in ret["idx"]] == want_idx, "element (p6, p5, p4) of the result is element (p6, p5, p4) of the table: %r" % (ret["idx"],))
        p6, p5, p4 = z3.Int("p6"), z3.Int("p5"), z3.Int("p4")
        st, mdl = G.check_valid(_sizes_premise(env0, sizes) + [env0("nd") >= 1, p6 >= 0, p5 >= 0, p4 >= 0],
                                G._cons_z3(ret["cons"], env0) == z3.And(p6 <= env0("nd"), p5 <= env0("nb"), p4 <= env0("na")))
        M._rec(pfx + "/returned-view/extent-is-(nd+1,nb+1,na+1)", st, "z3-lia", G.LAST_SECS[0], detail=mdl or "", cex=_cex(mdl))
        cp = _case_premise(C, sizes)
        check_events(M, C, sizes, tails, candidates, base_case, pfx=pfx, domain=domain, returned=[ret],
                     extra_prem=lambda env: [env("nd") >= 1] + (cp(env) if cp else []))
        check_spec_reads(M, C, sizes, pfx, extra_prem=lambda env: [env("nd") >= 1] + (cp(env) if cp else []))


class OneElecVerticalAnyL:
    """_compute_one_elec_integrals, vertical stage (lines up to the contraction over the primitives), for ALL l_a, l_b >= 0:
    the table V[m, a_x, a_y, a_z] of auxiliary integrals (a | 1/r_C | s)^(m) obeys, for ANY function F_m(T) used as the Boys
    function,

        V[m, 0]         = (2 pi / p) F_m(p |PC|^2) exp(-mu |AB|^2)
        V[m, a + 1_c]   = PA_c V[m, a] - PC_c V[m+1, a] + a_c / (2p) (V[m, a - 1_c] - V[m+1, a - 1_c])        (c = x, y, z)

    on the domain m + a_x + a_y + a_z <= l_a + l_b (each unit of angular momentum costs one order m; what the code leaves
    outside that domain is garbage that no specified element reads); the part handed to the contraction step, V[0, a] with
    |a| <= l_a + l_b, has been written.  The remaining stages of the function (contraction, horizontal recursion, component
    norms - where l/2 appears as an exponent) are outside the generic-element fragment and covered per shape only
    (contracts.coulomb:OneElecKernel)."""

    function = "gbasis.integrals._one_elec_int._compute_one_elec_integrals (vertical recursion; any angular momenta)"

    def shapes(self, tier):
        return [dict(K=[2, 1], N=1)]

    def native(self, shape, M):
        # the counterexample extents are replayed through the per-shape contract of the whole kernel
        from .coulomb import OneElecKernel

        def ext(name, default):
            try:
                return max(0, min(3, int(M.env[name])))
            except Exception:
                return default

        la, lb = ext("la", 2), ext("lb", 1)
        la, lb = max(la, lb), min(la, lb)
        sub = Mode_like = M
        before = len(M.results)
        wanted, M.wanted = M.wanted, None
        try:
            OneElecKernel().run(dict(la=la, lb=lb, K=[1, 1], M=[1, 1], N=1), M)
        except Exception as e:  # noqa - the unmodified code raises on a legal input: that IS the failing input
            M.wanted = wanted
            del M.results[before:]
            M.true(M.wanted or "anyLcoul/native-kernel-equals-specification", False, "l_a = %d, l_b = %d: the native kernel raised %s: %s" % (la, lb, type(e).__name__, e))
            return
        finally:
            M.wanted = wanted
        new = M.results[before:]
        del M.results[before:]
        bad = []
        for r in new:
            if r["status"] == "failed":
                bad.append(r["name"])
            elif r["status"] == "value":
                from engine import runner

                g, e = runner._parse_num(r["got"]), runner._parse_num(r["exp"])
                if not (abs(g - e) <= 1e-8 * max(abs(e), abs(g), 1)):
                    bad.append("%s: %s vs %s" % (r["name"], r["got"], r["exp"]))
        M.true(M.wanted or "anyLcoul/native-kernel-equals-specification", not bad,
               "l_a = %d, l_b = %d: %d of %d elements of the native kernel differ from the specification; first: %s" % (la, lb, len(bad), len(new), bad[:2]))

    def run(self, shape, M):
        if not M.symbolic:
            return self.native(shape, M)
        import z3

        mod = M.mods["gbasis.integrals._one_elec_int"]
        Ka, Kb = shape["K"]
        N = shape["N"]
        A, B = M.vec("A", 3), M.vec("B", 3)
        pts = M.vec("R", (N, 3))
        ea, eb = M.vec("a", Ka, "pos"), M.vec("b", Kb, "pos")
        da, db = M.vec("da", (Ka, 1)), M.vec("db", (Kb, 1))
        sizes = ["la", "lb"]
        la, lb = G.Aff.var("la"), G.Aff.var("lb")
        C = G.Ctx(sizes)
        G.CTX[0] = C
        seen = {}

        def boys(orders, T):
            # ANY function of (m, T): opaque atoms F[m | point, primitive pair]; the argument is checked below
            seen["boys"] = (orders, T)
            if not isinstance(orders, G.GIota) or orders.ndim != 4 or orders.axis != 0:
                raise alg.Undecided("Boys function called with orders of an unexpected form")
            Tarr = np.asarray(T, dtype=object)
            if Tarr.ndim < 4 or Tarr.shape[-4] != 1:
                raise alg.Undecided("Boys argument of an unexpected shape %s" % (Tarr.shape,))
            data = np.empty(Tarr.shape, dtype=object)  # the order axis (4th from the right) has length 1 here: generic position p4
            for pos in itertools.product(*[range(n) for n in Tarr.shape]):
                data[pos] = C.named_atom("F", G.Aff.var("p4"), pos[-3:])
            return G.GVal(data, {4: [G.SymAxis(G.Aff.of(0), [orders.D])]}, [])

        stage_end = None
        try:
            with bind.patched((mod, "np", G.GNp(mod.np)), (mod, "range", G.grange)):
                mod._compute_one_elec_integrals(pts, boys, A, la, ea, da, B, lb, eb, db)
        except G.StageEnd as e:
            stage_end = str(e)
        finally:
            G.CTX[0] = None
        pfx = "anyLcoul"
        M.true(pfx + "/vertical-stage-completed", stage_end is not None, "the run reaches the contraction step (%s)" % stage_end)
        tails = list(itertools.product(range(N), range(Kb), range(Ka)))
        # callee precondition: the Boys function is asked for orders 0 .. l_a + l_b at T = p |PC|^2
        bo = seen.get("boys")
        M.true(pfx + "/pre@boys/called", bo is not None, "")
        if bo is None:
            return
        envb, _ = G._z3env()
        st, mdl = G.check_valid(_sizes_premise(envb, sizes), bo[0].D.z3(envb) >= (la + lb + 1).z3(envb))
        M._rec(pfx + "/pre@boys/orders-0..la+lb-are-requested", st, "z3-lia", G.LAST_SECS[0], detail=mdl or "orders 0 .. %r - 1" % bo[0].D, cex=_cex(mdl))
        Tarr = np.asarray(bo[1], dtype=object)
        M.true(pfx + "/pre@boys/argument-shape", Tarr.shape[-4:] == (1, N, Kb, Ka) and Tarr.size == N * Kb * Ka, str(Tarr.shape))
        Tarr = Tarr.reshape((1, N, Kb, Ka)) if Tarr.size == N * Kb * Ka else Tarr

        def geom(c, n, pb, pa):
            a, b = ea[pa], eb[pb]
            p = a + b
            P = [(a * A[x] + b * B[x]) / p for x in range(3)]
            return dict(p=p, PA=P[c] - A[c], PC=P[c] - pts[n, c], P=P, a=a, b=b)

        if Tarr.shape == (1, N, Kb, Ka):
            for (n, pb, pa) in tails:
                g = geom(0, n, pb, pa)
                T = sum(((g["P"][x] - pts[n, x]) * (g["P"][x] - pts[n, x]) for x in range(3)), S.lift(0)) * g["p"]
                M.eq(pfx + "/pre@boys/argument" + str([n, pb, pa]), Tarr[0, n, pb, pa], T)

        def candidates(idx, tail):
            m = idx[0]
            out_ = []
            for c in (2, 1, 0):
                ac = idx[1 + c]
                if ac.is_const() and ac.c == 0:
                    continue
                g = geom(c, *tail)
                low = list(idx)
                low[1 + c] = ac - 1
                up = list(low)
                up[0] = m + 1
                rhs = g["PA"] * C.atom(*(tuple(low) + (tail,))) - g["PC"] * C.atom(*(tuple(up) + (tail,)))
                coef = ac - 1
                if not (coef.is_const() and coef.c == 0):
                    low2, up2 = list(low), list(up)
                    low2[1 + c] = ac - 2
                    up2[1 + c] = ac - 2
                    rhs = rhs + coef.to_sym() / (g["p"] * 2) * (C.atom(*(tuple(low2) + (tail,))) - C.atom(*(tuple(up2) + (tail,))))
                out_.append(("the vertical relation raising a_%s" % "xyz"[c], rhs, [ac - 1]))
            return out_

        def base_case(idx, tail):
            if all(e.is_const() and e.c == 0 for e in idx[1:]):
                g = geom(0, *tail)
                ab2 = sum(((A[x] - B[x]) * (A[x] - B[x]) for x in range(3)), S.lift(0))
                return M.SF.pi * 2 / g["p"] * C.named_atom("F", idx[0], tail) * M.SF.exp(-(g["a"] * g["b"] / g["p"]) * ab2)
            return None

        def domain(env, m, ax, ay, az):
            return z3.And(m >= 0, ax >= 0, ay >= 0, az >= 0, m + ax + ay + az <= env("la") + env("lb"))

        # what goes on to the contraction step: V[0, a_x, a_y, a_z] for |a| <= l_a + l_b
        ret = dict(kind="read", idx=(G.Aff.of(0), G.Aff.var("rx"), G.Aff.var("ry"), G.Aff.var("rz")), loops=[], seq=None, bounds=[],
                   cons=[("ge", G.Aff.var(v), G.Aff.of(0)) for v in ("rx", "ry", "rz")] + [("lt", G.Aff.var("rx") + G.Aff.var("ry") + G.Aff.var("rz"), la + lb + 1)])
        check_events(M, C, sizes, tails, candidates, base_case, pfx=pfx, domain=domain, returned=[ret])


class TwoElecRecursionsAnyL:
    """_compute_two_elec_integrals as a WHOLE, for ALL l_a, l_b, l_c, l_d >= 0 that are not all zero, ANY Cartesian component
    (a_x, a_y, a_z) with a_x + a_y + a_z = l_a (likewise b, c, d) and ANY function F_m(T) used as the Boys function:

      vertical table   V[m, a]:   V[m, 0]       = 2 pi^(5/2) / (zeta eta sqrt(zeta + eta)) F_m(rho |PQ|^2) e^(-mu_ab |AB|^2) e^(-mu_cd |CD|^2)
                                  V[m, a + 1_i] = PA_i V[m, a] - (rho/zeta) PQ_i V[m+1, a]
                                                  + a_i / (2 zeta) (V[m, a - 1_i] - (rho/zeta) V[m+1, a - 1_i])
                       on the domain  m + |a| <= L = l_a + l_b + l_c + l_d

      transfer table   E[c, a]:   E[0, a]       = V[0, a]
                                  E[c + 1_i, a] = (QC_i + (zeta/eta) PA_i) E[c, a] + a_i / (2 eta) E[c, a - 1_i]
                                                  + c_i / (2 eta) E[c - 1_i, a] - (zeta/eta) E[c, a + 1_i]
                       on the domain  |c| + |a| <= L,  c_i <= l_c + l_d

      contraction      H[0, 0, c, a]          = sum over the primitives of N_a d_a N_b d_b N_c d_c N_d d_d E[c, a],  N = (2 alpha / pi)^(3/4) (4 alpha)^(l/2)
      d_x, d_y         H[d + 1_i, c, a]       = H[d, c + 1_i, a] + (C_i - D_i) H[d, c, a]                 (i = x, y; d_z = 0)
      d_z              H2[d_z + 1, c_z, a]    = H2[d_z, c_z + 1, a] + (C_z - D_z) H2[d_z, c_z, a],  H2[0, c_z, a] = H[(d_x, d_y), (c_x, c_y, c_z), a]
      b_x, b_y         B[b + 1_i, a]          = B[b, a + 1_i] + (A_i - B_i) B[b, a],                B[0, a] = H2[d_z, c_z, a]
      b_z              B2[b_z + 1, a_z]       = B2[b_z, a_z + 1] + (A_z - B_z) B2[b_z, a_z],        B2[0, a_z] = B[(b_x, b_y), (a_x, a_y, a_z)]
      result[m_a, m_b, m_c, m_d]              = B2[b_z, a_z] / sqrt(prod over the twelve components k of (2k - 1)!!)

    (zeta = a + b, eta = c + d, rho = zeta eta / (zeta + eta), P, Q the weighted centres; the selected components are the generic
    ones of the four shells).  Each table is claimed on the domain the next stage reads from, every element read was written
    before, every integer / component index is in range.  (4 alpha)^(l/2) and (2k-1)!! with symbolic l / k are opaque positive
    atoms built identically on the specification side.  With several component rows per shell (shape["R"]) the tables after a
    selection carry one row axis per selected shell; they are claimed row by row (the domain of row (r_d, r_c) of the d_z table
    is d_z + c_z <= d_z*[r_d] + c_z*[r_c]) and every read is attributed to the row of the target it serves."""

    function = "gbasis.integrals._two_elec_int._compute_two_elec_integrals (whole kernel; any angular momenta, any component)"

    def shapes(self, tier):
        # numbers of primitives K and of segments M per shell (concrete; the angular momenta and components are not)
        # and R component rows per shell (each row three symbolic integers that add up to l)
        out = [dict(K=[2, 1, 1, 1]), dict(K=[1, 1, 2, 1], M=[1, 2, 1, 1], R=[1, 2, 2, 1]), dict(K=[1, 1, 1, 1], M=[1, 1, 1, 1], R=[2, 1, 1, 3])]
        if tier == "thorough":
            out.append(dict(K=[1, 2, 1, 2], M=[2, 2, 2, 2]))
            out.append(dict(K=[1, 1, 1, 1], M=[2, 1, 1, 2], R=[2, 2, 2, 2]))
        return out

    def native(self, shape, M):
        from .coulomb import TwoElecKernel

        def ext(name, default):
            try:
                return max(0, min(2, int(M.env[name])))
            except Exception:
                return default

        ls = [ext("la", 1), ext("lb", 1), ext("lc", 1), ext("ld", 1)]  # default: every recursion stage does some work
        if sum(ls) == 0:
            ls[0] = 1
        while sum(ls) > 4:
            ls[ls.index(max(ls))] -= 1
        before = len(M.results)
        wanted, M.wanted = M.wanted, None
        name = wanted or "anyLeri/native-kernel-equals-specification"
        try:
            TwoElecKernel().run(dict(l=ls, K=[1, 1, 1, 1], M=list(shape.get("M", [1, 1, 1, 1]))), M)
        except Exception as e:  # noqa
            M.wanted = wanted
            del M.results[before:]
            M.true(name, False, "l = %s: the native kernel raised %s: %s" % (ls, type(e).__name__, e))
            return
        finally:
            M.wanted = wanted
        new = M.results[before:]
        del M.results[before:]
        bad = []
        for r in new:
            if r["status"] == "failed":
                bad.append(r["name"])
            elif r["status"] == "value":
                from engine import runner

                g, e = runner._parse_num(r["got"]), runner._parse_num(r["exp"])
                sc = abs(runner._parse_num(r["scale"])) if r.get("scale") is not None else max(abs(e), abs(g), 1)
                if not (abs(g - e) <= 1e-6 * sc + 1e-280):
                    bad.append("%s: %s vs %s" % (r["name"], r["got"], r["exp"]))
        M.true(name, not bad, "l = %s: %d of %d elements of the native kernel differ from the specification; first: %s" % (ls, len(bad), len(new), bad[:2]))

    def run(self, shape, M):
        if not M.symbolic:
            return self.native(shape, M)
        import z3

        mod = M.mods["gbasis.integrals._two_elec_int"]
        Ka, Kb, Kc, Kd = shape["K"]
        cen = [M.vec(n, 3) for n in "ABCD"]
        ex = [M.vec(n, k, "pos") for n, k in zip("abcd", (Ka, Kb, Kc, Kd))]
        co = [M.vec("d" + n, (k, m_)) for n, k, m_ in zip("abcd", (Ka, Kb, Kc, Kd), shape.get("M", [2, 1, 1, 1]))]
        sizes = ["la", "lb", "lc", "ld"]
        ls = [G.Aff.var(n) for n in sizes]
        L = ls[0] + ls[1] + ls[2] + ls[3]
        # one generic Cartesian component per shell: (acx, acy, acz) >= 0 with acx + acy + acz = l_a, ... (universally quantified,
        # like the angular momenta themselves)
        # (shape["R"] rows per shell; a row is named acx, acy, acz - or acx1, ... for a second row)
        R = shape.get("R", [1, 1, 1, 1])
        cnames = [[[s_ + "c" + x + (str(r) if r else "") for x in "xyz"] for r in range(R[i])] for i, s_ in enumerate("abcd")]
        comps = []
        for rows in cnames:
            arr = np.empty((len(rows), 3), dtype=object)
            for r, row in enumerate(rows):
                for j, nm in enumerate(row):
                    arr[r, j] = G.Aff.var(nm)
            comps.append(arr)
        sizes = sizes + [nm for rows in cnames for row in rows for nm in row]

        def body(C_):
            seen_ = {}

            def boys(orders, T):
                seen_["boys"] = (orders, T)
                Tarr = np.asarray(T, dtype=object)
                if not isinstance(orders, G.GIota) or orders.axis != 0 or orders.ndim != Tarr.ndim or Tarr.shape[0] != 1:
                    raise alg.Undecided("Boys function called with orders / argument of an unexpected form")
                slot = Tarr.ndim
                data = np.empty(Tarr.shape, dtype=object)
                for pos in itertools.product(*[range(n) for n in Tarr.shape]):
                    data[pos] = C_.named_atom("F", G.Aff.var("p%d" % slot), pos[1:])
                return G.GVal(data, {slot: [G.SymAxis(G.Aff.of(0), [orders.D])]}, [])

            end = None
            try:
                with bind.patched((mod, "np", G.GNp(mod.np)), (mod, "range", G.grange), (mod, "factorial2", gfactorial2)):
                    args = [boys]
                    for i in range(4):
                        args += [cen[i], ls[i], comps[i], ex[i], co[i]]
                    seen_["out"] = mod._compute_two_elec_integrals(*args)
            except G.StageEnd as e:
                end = str(e)
            return end, seen_

        def setup(C_):
            C_.assumed.append(("ge", L, G.Aff.of(1)))  # precondition: not all four shells are s shells
            for i, rows in enumerate(cnames):  # precondition: the components of a shell add up to its angular momentum
                for row in rows:
                    C_.assumed.append(("eq", G.Aff.var(row[0]) + G.Aff.var(row[1]) + G.Aff.var(row[2]), ls[i]))
            C_.allow_extent_exponents = True

        cases = G.run_cases(sizes, body, setup)
        for cn, (C, (stage_end, seen)) in enumerate(cases):
            self._check_case(M, C, stage_end, seen, sizes, shape, cen, ex, co, ls, L, "anyLeri" if len(cases) == 1 else "anyLeri/case%d" % cn, cnames)

    def _check_case(self, M, C, stage_end, seen, sizes, shape, cen, ex, co, ls, L, pfx, cnames):
        import z3

        Ka, Kb, Kc, Kd = shape["K"]
        cp = _case_premise(C, sizes)
        M.true(pfx + "/recursion-stages-completed", stage_end is None and C.ntab == 6 and isinstance(seen.get("out"), G.GVal),
               "the run goes through all six tables (vertical, transfer, d_x d_y, d_z, b_x b_y, b_z) and returns a value (%s; %d tables)" % (stage_end, C.ntab))
        if stage_end is not None or C.ntab != 6 or not isinstance(seen.get("out"), G.GVal):
            return
        tails = list(itertools.product(range(Kd), range(Kb), range(Kc), range(Ka)))
        envb, _ = G._z3env()
        prem0 = lambda env: [env("la") + env("lb") + env("lc") + env("ld") >= 1] + (cp(env) if cp else [])

        def geom(tail):
            pd, pb, pc, pa = tail
            a, b, c, d = ex[0][pa], ex[1][pb], ex[2][pc], ex[3][pd]
            zeta, eta = a + b, c + d
            P = [(a * cen[0][x] + b * cen[1][x]) / zeta for x in range(3)]
            Q = [(c * cen[2][x] + d * cen[3][x]) / eta for x in range(3)]
            return dict(a=a, b=b, c=c, d=d, zeta=zeta, eta=eta, rho=zeta * eta / (zeta + eta), P=P, Q=Q)

        bo = seen.get("boys")
        M.true(pfx + "/pre@boys/called", bo is not None, "")
        if bo is None:
            return
        st, mdl = G.check_valid(_sizes_premise(envb, sizes), bo[0].D.z3(envb) >= (L + 1).z3(envb))
        M._rec(pfx + "/pre@boys/orders-0..L-are-requested", st, "z3-lia", G.LAST_SECS[0], detail=mdl or "orders 0 .. %r - 1" % bo[0].D, cex=_cex(mdl))
        Tarr = np.asarray(bo[1], dtype=object)
        okT = Tarr.shape == (1, Kd, Kb, Kc, Ka)
        M.true(pfx + "/pre@boys/argument-shape", okT, str(Tarr.shape))
        if okT:
            for tail in tails:
                g = geom(tail)
                pq2 = sum(((g["P"][x] - g["Q"][x]) * (g["P"][x] - g["Q"][x]) for x in range(3)), S.lift(0))
                M.eq(pfx + "/pre@boys/argument" + str(list(tail)), Tarr[(0,) + tail], g["rho"] * pq2)

        # ---- table 0: vertical recursion
        def cand_v(idx, tail):
            m = idx[0]
            g = geom(tail)
            out_ = []
            for c in (2, 1, 0):
                ac = idx[1 + c]
                if ac.is_const() and ac.c == 0:
                    continue
                low = list(idx)
                low[1 + c] = ac - 1
                up = list(low)
                up[0] = m + 1
                PA = g["P"][c] - cen[0][c]
                PQ = g["P"][c] - g["Q"][c]
                r = g["rho"] / g["zeta"]
                rhs = PA * C.atom(*(tuple(low) + (tail,))) - r * PQ * C.atom(*(tuple(up) + (tail,)))
                coef = ac - 1
                if not (coef.is_const() and coef.c == 0):
                    low2, up2 = list(low), list(up)
                    low2[1 + c] = ac - 2
                    up2[1 + c] = ac - 2
                    rhs = rhs + coef.to_sym() / (g["zeta"] * 2) * (C.atom(*(tuple(low2) + (tail,))) - r * C.atom(*(tuple(up2) + (tail,))))
                out_.append(("the vertical relation raising a_%s" % "xyz"[c], rhs, [ac - 1]))
            return out_

        def base_v(idx, tail):
            if all(e.is_const() and e.c == 0 for e in idx[1:]):
                g = geom(tail)
                ab2 = sum(((cen[0][x] - cen[1][x]) * (cen[0][x] - cen[1][x]) for x in range(3)), S.lift(0))
                cd2 = sum(((cen[2][x] - cen[3][x]) * (cen[2][x] - cen[3][x]) for x in range(3)), S.lift(0))
                SF = M.SF
                pref = SF.pi * SF.pi * SF.sqrt(SF.pi) * 2 / (g["zeta"] * g["eta"] * SF.sqrt(g["zeta"] + g["eta"]))
                return pref * C.named_atom("F", idx[0], tail) * SF.exp(-(g["a"] * g["b"] / g["zeta"]) * ab2) * SF.exp(-(g["c"] * g["d"] / g["eta"]) * cd2)
            return None

        def Lz(env):
            return env("la") + env("lb") + env("lc") + env("ld")

        def dom_v(env, m, ax, ay, az):
            return z3.And(m >= 0, ax >= 0, ay >= 0, az >= 0, m + ax + ay + az <= Lz(env))

        def dom_e(env, cx, cy, cz, ax, ay, az):
            lcd = env("lc") + env("ld")
            return z3.And(cx >= 0, cy >= 0, cz >= 0, ax >= 0, ay >= 0, az >= 0, cx + cy + cz + ax + ay + az <= Lz(env), cx <= lcd, cy <= lcd, cz <= lcd)

        doms = {0: dom_v, 1: dom_e}
        check_events(M, C, sizes, tails, cand_v, base_v, pfx=pfx + "/vertical", domain=dom_v, tid=0, domains=doms, extra_prem=prem0,
                     returned=[dict(kind="read", tid=0, idx=(G.Aff.of(0), G.Aff.var("rx"), G.Aff.var("ry"), G.Aff.var("rz")), loops=[], seq=None, bounds=[],
                                    cons=[("ge", G.Aff.var(v), G.Aff.of(0)) for v in ("rx", "ry", "rz")] + [("lt", G.Aff.var("rx") + G.Aff.var("ry") + G.Aff.var("rz"), L + 1)])])

        # ---- table 1: electron transfer
        def cand_e(idx, tail):
            g = geom(tail)
            out_ = []
            ze = g["zeta"] / g["eta"]
            for i in (2, 1, 0):
                ci = idx[i]
                if ci.is_const() and ci.c == 0:
                    continue
                low = list(idx)
                low[i] = ci - 1  # E[c, a] with c = idx - 1_i
                ai = idx[3 + i]
                QC = g["Q"][i] - cen[2][i]
                PA = g["P"][i] - cen[0][i]
                rhs = (QC + ze * PA) * C.named_atom("S1", *(tuple(low) + (tail,)))
                if not (ai.is_const() and ai.c == 0):
                    t = list(low)
                    t[3 + i] = ai - 1
                    rhs = rhs + ai.to_sym() / (g["eta"] * 2) * C.named_atom("S1", *(tuple(t) + (tail,)))
                cm = ci - 1
                if not (cm.is_const() and cm.c == 0):
                    t = list(low)
                    t[i] = ci - 2
                    rhs = rhs + cm.to_sym() / (g["eta"] * 2) * C.named_atom("S1", *(tuple(t) + (tail,)))
                t = list(low)
                t[3 + i] = ai + 1
                rhs = rhs - ze * C.named_atom("S1", *(tuple(t) + (tail,)))
                out_.append(("the electron-transfer relation raising c_%s" % "xyz"[i], rhs, [ci - 1]))
            return out_

        def base_e(idx, tail):
            if all(e.is_const() and e.c == 0 for e in idx[:3]):
                return C.named_atom("S", G.Aff.of(0), idx[3], idx[4], idx[5], tail)
            return None

        rv = [G.Aff.var(v) for v in ("rcx", "rcy", "rcz", "rax", "ray", "raz")]
        ret_e = dict(kind="read", tid=1, idx=tuple(rv), loops=[], seq=None, bounds=[],
                     cons=[("ge", v, G.Aff.of(0)) for v in rv] + [("lt", rv[0] + rv[1] + rv[2], ls[2] + ls[3] + 1), ("lt", rv[3] + rv[4] + rv[5], ls[0] + ls[1] + 1)])
        check_events(M, C, sizes, tails, cand_e, base_e, pfx=pfx + "/transfer", domain=dom_e, tid=1, domains=doms, extra_prem=prem0, returned=[ret_e])

        # ---- table 2: contraction over the primitives, then the horizontal recursion that builds d_x, d_y from c
        from fractions import Fraction

        la_, lb_, lc_, ld_ = ls
        Ms = [c_.shape[1] for c_ in co]  # segments of a, b, c, d
        htails = list(itertools.product(range(Ms[0]), range(Ms[2]), range(Ms[1]), range(Ms[3])))  # (m_a, m_c, m_b, m_d)

        def Nprim(alpha, l):
            return (alpha * 2 / M.SF.pi) ** Fraction(3, 4) * (S.lift(alpha * 4) ** G.ExtExp(l, 2))

        def base_h(idx, tail):
            if all(e.is_const() and e.c == 0 for e in idx[:2]):
                ma, mc, mb, md = tail
                tot = S.lift(0)
                for pd, pb, pc, pa in tails:
                    w = (Nprim(ex[0][pa], la_) * co[0][pa, ma] * Nprim(ex[2][pc], lc_) * co[2][pc, mc]
                         * Nprim(ex[1][pb], lb_) * co[1][pb, mb] * Nprim(ex[3][pd], ld_) * co[3][pd, md])
                    tot = tot + C.named_atom("S1", *(tuple(idx[2:]) + ((pd, pb, pc, pa),))) * w
                return tot
            return None

        def cand_h(idx, tail):
            out_ = []
            for i in (1, 0):  # d_y, d_x
                di = idx[i]
                if di.is_const() and di.c == 0:
                    continue
                low = list(idx)
                low[i] = di - 1
                up = list(low)
                up[2 + i] = idx[2 + i] + 1
                CD = cen[2][i] - cen[3][i]
                rhs = C.named_atom("S2", *(tuple(up) + (tail,))) + CD * C.named_atom("S2", *(tuple(low) + (tail,)))
                out_.append(("the horizontal relation raising d_%s" % "xy"[i], rhs, [di - 1]))
            return out_

        def dom_h(env, dx, dy, cx, cy, cz, ax, ay, az):
            lcd, lab = env("lc") + env("ld"), env("la") + env("lb")
            return z3.And(dx >= 0, dy >= 0, cx >= 0, cy >= 0, cz >= 0, ax >= 0, ay >= 0, az >= 0, dx <= env("ld"), dy <= env("ld"),
                          cx + cy + cz + dx + dy <= lcd, ax + ay + az <= lab)

        doms[2] = dom_h
        hv = [G.Aff.var(v) for v in ("hdx", "hdy", "hcx", "hcy", "hcz", "hax", "hay", "haz")]
        ret_h = dict(kind="read", tid=2, idx=tuple(hv), loops=[], seq=None, bounds=[],
                     cons=[("ge", v, G.Aff.of(0)) for v in hv] + [("lt", hv[0], ld_ + 1), ("lt", hv[1], ld_ + 1),
                                                                  ("lt", hv[2] + hv[3] + hv[4] + hv[0] + hv[1], lc_ + ld_ + 1), ("lt", hv[5] + hv[6] + hv[7], la_ + lb_ + 1)])
        check_events(M, C, sizes, htails, cand_h, base_h, pfx=pfx + "/contraction+horizontal-d", domain=dom_h, tid=2, domains=doms, extra_prem=prem0, returned=[ret_h])

        # ---- tables 3, 4, 5: selection of the d_x, d_y, c_x, c_y components, d_z; selection of d_z, c_z, then b_x, b_y; selection of
        # b_x, b_y, a_x, a_y, then b_z - for ANY component (acx, acy, acz), ... with the right sums
        cv = [[[G.Aff.var(nm) for nm in row] for row in rows] for rows in cnames]  # shell a, b, c, d -> row -> axis
        ca, cb, cc, cd = cv
        Ra, Rb, Rc, Rd = [len(rows) for rows in cnames]

        def horiz(name, lead, pairs, centre_pair, label):
            """relations X[.. q+1 .., .. r ..] = X[.. q .., .. r+1 ..] + (centre difference) X[.. q .., .. r ..] for (q, r, axis) in pairs"""
            def cand(idx, tail):
                out_ = []
                for qpos, rpos, axis in pairs:
                    qi = idx[qpos]
                    if qi.is_const() and qi.c == 0:
                        continue
                    low = list(idx)
                    low[qpos] = qi - 1
                    up = list(low)
                    up[rpos] = idx[rpos] + 1
                    diff = cen[centre_pair[0]][axis] - cen[centre_pair[1]][axis]
                    rhs = C.named_atom(name, *(tuple(up) + (tail,))) + diff * C.named_atom(name, *(tuple(low) + (tail,)))
                    out_.append(("the horizontal relation raising %s_%s" % (label, "xyz"[axis]), rhs, [qi - 1]))
                return out_
            return cand

        t6 = [(rd, rc) + t for rd in range(Rd) for rc in range(Rc) for t in htails]  # (row of d, row of c, m_a, m_c, m_b, m_d)
        t8 = [(rb, ra) + t for rb in range(Rb) for ra in range(Ra) for t in t6]  # (row of b, row of a, row of d, row of c, m_a, m_c, m_b, m_d)
        # the tables after a selection are claimed, row by row, as far as that row's selected components need them
        row_axes = {3: [(0, Rd), (1, Rc)], 5: [(0, Rb), (1, Ra)]}

        def base_d2(idx, tail):
            if idx[0].is_const() and idx[0].c == 0:
                d_, c_ = cd[tail[0]], cc[tail[1]]
                return C.named_atom("S2", d_[0], d_[1], c_[0], c_[1], idx[1], idx[2], idx[3], idx[4], tail[2:])
            return None

        def dom_d2(env, dz, cz, ax, ay, az, rows):
            return z3.And(dz >= 0, cz >= 0, ax >= 0, ay >= 0, az >= 0, dz <= env("ld"), dz + cz <= cd[rows[0]][2].z3(env) + cc[rows[1]][2].z3(env),
                          ax + ay + az <= env("la") + env("lb"))

        doms[3] = dom_d2
        check_events(M, C, sizes, t6, horiz("S3", 0, [(0, 1, 2)], (2, 3), "d"), base_d2, pfx=pfx + "/select-xy+horizontal-d_z", domain=dom_d2, tid=3, domains=doms,
                     extra_prem=prem0, returned=[], row_axes=row_axes)

        def base_b(idx, tail):
            if all(e.is_const() and e.c == 0 for e in idx[:2]):
                return C.named_atom("S3", cd[tail[0]][2], cc[tail[1]][2], idx[2], idx[3], idx[4], tail)
            return None

        def dom_b(env, bx, by, ax, ay, az):
            return z3.And(bx >= 0, by >= 0, ax >= 0, ay >= 0, az >= 0, bx <= env("lb"), by <= env("lb"), bx + by + ax + ay + az <= env("la") + env("lb"))

        doms[4] = dom_b
        check_events(M, C, sizes, t6, horiz("S4", 0, [(1, 3, 1), (0, 2, 0)], (0, 1), "b"), base_b, pfx=pfx + "/select-z+horizontal-b", domain=dom_b, tid=4, domains=doms,
                     extra_prem=prem0, returned=[], row_axes=row_axes)

        def base_b2(idx, tail):
            if idx[0].is_const() and idx[0].c == 0:
                b_, a_ = cb[tail[0]], ca[tail[1]]
                return C.named_atom("S4", b_[0], b_[1], a_[0], a_[1], idx[1], tail[2:])
            return None

        def dom_b2(env, bz, az, rows):
            return z3.And(bz >= 0, az >= 0, bz <= env("lb"), bz + az <= cb[rows[0]][2].z3(env) + ca[rows[1]][2].z3(env))

        doms[5] = dom_b2
        out = seen["out"]
        check_events(M, C, sizes, t8, horiz("S5", 0, [(0, 1, 2)], (0, 1), "b"), base_b2, pfx=pfx + "/select-xy+horizontal-b_z", domain=dom_b2, tid=5, domains=doms,
                     extra_prem=prem0, returned=[r for r in out.reads], row_axes=row_axes)

        # ---- the returned block: [a | b | c | d] component (1 each), segments (m_a, m_b, m_c, m_d)
        okshape = out.data.shape == (Ra, Rb, Rc, Rd, Ms[0], Ms[1], Ms[2], Ms[3]) and not out.sym
        M.true(pfx + "/result/shape", okshape, "%s with symbolic axes %s" % (out.data.shape, sorted(out.sym)))
        M.true(pfx + "/result/reads-the-last-table-only", len(out.reads) >= Ra * Rb and all(r.get("tid") == 5 for r in out.reads), "%d reads" % len(out.reads))
        if okshape:
            for ra, rb, rc, rd in itertools.product(range(Ra), range(Rb), range(Rc), range(Rd)):
                nrm = S.lift(1)
                for row in (ca[ra], cb[rb], cc[rc], cd[rd]):
                    for e in row:
                        nrm = nrm * _dfact_atom((e * 2 - 1).to_sym())
                for ma, mc, mb, md in htails:
                    want = C.named_atom("S5", cb[rb][2], ca[ra][2], (rb, ra, rd, rc, ma, mc, mb, md)) / M.SF.sqrt(nrm)
                    M.eq(pfx + "/result/value" + str([ra, rb, rc, rd, ma, mb, mc, md]), out.data[ra, rb, rc, rd, ma, mb, mc, md], want)


def _dfact_atom(v):
    """(n)!! for a symbolic integer expression n (an opaque positive atom; the specification side builds the same one)"""
    return S.Sym.symbol("dfact[%s]" % alg.fmt(S.expand(S.lift(v)), 40), "pos")


def gfactorial2(x):
    if isinstance(x, G.GVal):
        return x.map(_dfact_atom)
    if isinstance(x, np.ndarray) and x.dtype == object and all(isinstance(e, G.Aff) for e in x.reshape(-1)):
        out = np.empty(x.shape, dtype=object)
        of, xf = out.reshape(-1), x.reshape(-1)
        for i in range(xf.size):
            of[i] = _dfact_atom(xf[i].to_sym())
        return out
    raise alg.Undecided("factorial2 of %r in a generic-element run" % (type(x),))


class OneElecKernelAnyL(OneElecVerticalAnyL):
    """_compute_one_elec_integrals as a WHOLE, for ALL l_a, l_b >= 0 and ANY Boys function F_m(T):

      V[m, a]  vertical table        - as in OneElecVerticalAnyL
      H[b, a]  horizontal table:       H[0, a]       = sum_{primitives} N_a N_b d_a d_b V[0, a]      N = (2 alpha/pi)^(3/4) (4 alpha)^(l/2)
                                       H[b + 1_i, a] = H[b, a + 1_i] + (A_i - B_i) H[b, a]
                                       on the domain |a| + |b| <= l_a + l_b,  b_i <= l_b
      result[a_x, a_y, a_z, b_x, b_y, b_z, n, m_a, m_b] = H[b, a] / sqrt((2a_x-1)!! (2a_y-1)!! (2a_z-1)!! (2b_x-1)!! (2b_y-1)!! (2b_z-1)!!)
                                       for a_i <= l_a, b_i <= l_b (claimed, and proved, on the domain; the caller selects |a| = l_a, |b| = l_b)

    (4 alpha)^(l/2) and (2k-1)!! with a symbolic l / k are opaque positive atoms built identically on the specification side."""

    function = "gbasis.integrals._one_elec_int._compute_one_elec_integrals (whole kernel; any angular momenta)"

    def run(self, shape, M):
        if not M.symbolic:
            return self.native(shape, M)
        import z3

        mod = M.mods["gbasis.integrals._one_elec_int"]
        Ka, Kb = shape["K"]
        N = shape["N"]
        Ma, Mb = shape.get("M", [2, 1])
        A, B = M.vec("A", 3), M.vec("B", 3)
        pts = M.vec("R", (N, 3))
        ea, eb = M.vec("a", Ka, "pos"), M.vec("b", Kb, "pos")
        da, db = M.vec("da", (Ka, Ma)), M.vec("db", (Kb, Mb))
        sizes = ["la", "lb"]
        la, lb = G.Aff.var("la"), G.Aff.var("lb")
        def body(C_):
            def boys(orders, T):
                Tarr = np.asarray(T, dtype=object)
                if not isinstance(orders, G.GIota) or orders.ndim != 4 or orders.axis != 0 or Tarr.ndim < 4 or Tarr.shape[-4] != 1:
                    raise alg.Undecided("Boys function called with orders / argument of an unexpected form")
                data = np.empty(Tarr.shape, dtype=object)
                for pos in itertools.product(*[range(n) for n in Tarr.shape]):
                    data[pos] = C_.named_atom("F", G.Aff.var("p4"), pos[-3:])
                return G.GVal(data, {4: [G.SymAxis(G.Aff.of(0), [orders.D])]}, [])

            with bind.patched((mod, "np", G.GNp(mod.np)), (mod, "range", G.grange), (mod, "factorial2", gfactorial2)):
                return mod._compute_one_elec_integrals(pts, boys, A, la, ea, da, B, lb, eb, db)

        def setup(C_):
            C_.allow_extent_exponents = True

        cases = G.run_cases(sizes, body, setup)
        for cn, (C, out) in enumerate(cases):
            self._check_case(M, C, out, sizes, shape, A, B, pts, ea, eb, da, db, la, lb, "anyLcoulK" if len(cases) == 1 else "anyLcoulK/case%d" % cn)

    def _check_case(self, M, C, out, sizes, shape, A, B, pts, ea, eb, da, db, la, lb, pfx):
        import z3

        Ka, Kb = shape["K"]
        N = shape["N"]
        Ma, Mb = shape.get("M", [2, 1])
        cp = _case_premise(C, sizes)
        M.true(pfx + "/returns-a-value-over-the-horizontal-table", isinstance(out, G.GVal) and C.ntab == 2 and len(out.reads) == 1, "two tables; the result is one slice of the second, scaled")
        if not isinstance(out, G.GVal) or len(out.reads) != 1:
            return
        vt = list(itertools.product(range(N), range(Kb), range(Ka)))
        ht = list(itertools.product(range(N), range(Ma), range(Mb)))

        def geom(c, n, pb, pa):
            a, b = ea[pa], eb[pb]
            p = a + b
            P = [(a * A[x] + b * B[x]) / p for x in range(3)]
            return dict(p=p, PA=P[c] - A[c], PC=P[c] - pts[n, c], P=P, a=a, b=b)

        def cand_v(idx, tail):
            m = idx[0]
            out_ = []
            for c in (2, 1, 0):
                ac = idx[1 + c]
                if ac.is_const() and ac.c == 0:
                    continue
                g = geom(c, *tail)
                low = list(idx)
                low[1 + c] = ac - 1
                up = list(low)
                up[0] = m + 1
                rhs = g["PA"] * C.atom(*(tuple(low) + (tail,))) - g["PC"] * C.atom(*(tuple(up) + (tail,)))
                coef = ac - 1
                if not (coef.is_const() and coef.c == 0):
                    low2, up2 = list(low), list(up)
                    low2[1 + c] = ac - 2
                    up2[1 + c] = ac - 2
                    rhs = rhs + coef.to_sym() / (g["p"] * 2) * (C.atom(*(tuple(low2) + (tail,))) - C.atom(*(tuple(up2) + (tail,))))
                out_.append(("the vertical relation raising a_%s" % "xyz"[c], rhs, [ac - 1]))
            return out_

        def base_v(idx, tail):
            if all(e.is_const() and e.c == 0 for e in idx[1:]):
                g = geom(0, *tail)
                ab2 = sum(((A[x] - B[x]) * (A[x] - B[x]) for x in range(3)), S.lift(0))
                return M.SF.pi * 2 / g["p"] * C.named_atom("F", idx[0], tail) * M.SF.exp(-(g["a"] * g["b"] / g["p"]) * ab2)
            return None

        def dom_v(env, m, ax, ay, az):
            return z3.And(m >= 0, ax >= 0, ay >= 0, az >= 0, m + ax + ay + az <= env("la") + env("lb"))

        def dom_h(env, bx, by, bz, ax, ay, az):
            return z3.And(bx >= 0, by >= 0, bz >= 0, ax >= 0, ay >= 0, az >= 0, bx <= env("lb"), by <= env("lb"), bz <= env("lb"),
                          bx + by + bz + ax + ay + az <= env("la") + env("lb"))

        doms = {0: dom_v, 1: dom_h}
        retv = dict(kind="read", tid=0, idx=(G.Aff.of(0), G.Aff.var("rx"), G.Aff.var("ry"), G.Aff.var("rz")), loops=[], seq=None, bounds=[],
                    cons=[("ge", G.Aff.var(v), G.Aff.of(0)) for v in ("rx", "ry", "rz")] + [("lt", G.Aff.var("rx") + G.Aff.var("ry") + G.Aff.var("rz"), la + lb + 1)])
        check_events(M, C, sizes, vt, cand_v, base_v, pfx=pfx + "/vertical", domain=dom_v, tid=0, domains=doms, returned=[retv], extra_prem=cp)

        def pnorm(alpha, l):
            return ((alpha * 2 / M.SF.pi) ** S.Fraction(3, 4) if hasattr(S, "Fraction") else None)

        from fractions import Fraction

        def Nprim(alpha, l):
            return (alpha * 2 / M.SF.pi) ** Fraction(3, 4) * (S.lift(alpha * 4) ** G.ExtExp(l, 2))

        def base_h(idx, tail):
            if all(e.is_const() and e.c == 0 for e in idx[:3]):
                n, ma, mb = tail
                tot = S.lift(0)
                for pa in range(Ka):
                    for pb in range(Kb):
                        tot = tot + C.atom(G.Aff.of(0), idx[3], idx[4], idx[5], (n, pb, pa)) * Nprim(ea[pa], la) * da[pa, ma] * Nprim(eb[pb], lb) * db[pb, mb]
                return tot
            return None

        def cand_h(idx, tail):
            out_ = []
            for i in (2, 1, 0):
                bi = idx[i]
                if bi.is_const() and bi.c == 0:
                    continue
                low = list(idx)
                low[i] = bi - 1
                up = list(low)
                up[3 + i] = idx[3 + i] + 1
                rhs = C.named_atom("S1", *(tuple(up) + (tail,))) + (A[i] - B[i]) * C.named_atom("S1", *(tuple(low) + (tail,)))
                out_.append(("the horizontal relation raising b_%s" % "xyz"[i], rhs, [bi - 1]))
            return out_

        ret = out.reads[0]
        check_events(M, C, sizes, ht, cand_h, base_h, pfx=pfx + "/horizontal", domain=dom_h, tid=1, domains=doms, returned=[ret], returned_on_domain_only=True, extra_prem=cp)
        # the result: index map, extent, and value = H / sqrt(double factorials)
        pv = [G.Aff.var("p%d" % s_) for s_ in (9, 8, 7, 6, 5, 4)]  # result axes a_x a_y a_z b_x b_y b_z
        want = [pv[3].key(), pv[4].key(), pv[5].key(), pv[0].key(), pv[1].key(), pv[2].key()]
        M.true(pfx + "/result/index-map", [e.key() for e in ret["idx"]] == want, "result[a, b] is element H[b, a] of the horizontal table: %r" % (ret["idx"],))
        env0, _ = G._z3env()
        zs = [e.z3(env0) for e in pv]
        st, mdl = G.check_valid(_sizes_premise(env0, sizes) + [z >= 0 for z in zs],
                                G._cons_z3(ret["cons"], env0) == z3.And([z <= env0("la") for z in zs[:3]] + [z <= env0("lb") for z in zs[3:]]))
        M._rec(pfx + "/result/extent-is-(la+1)^3x(lb+1)^3", st, "z3-lia", G.LAST_SECS[0], detail=mdl or "", cex=_cex(mdl))
        # what a caller may select - components with |a| = l_a, |b| = l_b - is returned and specified
        dom_sel = dom_h(env0, zs[3], zs[4], zs[5], zs[0], zs[1], zs[2])
        st, mdl = G.check_valid(_sizes_premise(env0, sizes) + [z >= 0 for z in zs] + [zs[0] + zs[1] + zs[2] == env0("la"), zs[3] + zs[4] + zs[5] == env0("lb")],
                                z3.And(G._cons_z3(ret["cons"], env0), dom_sel))
        M._rec(pfx + "/result/components-of-total-l-are-returned-and-specified", st, "z3-lia", G.LAST_SECS[0], detail=mdl or "", cex=_cex(mdl))
        if [e.key() for e in ret["idx"]] == want and tuple(out.data.shape[-3:]) != (N, Ma, Mb):
            M._rec(pfx + "/result/trailing-shape", "failed", "run", 0.0, cex={"env": {}}, detail="%s instead of %s" % (out.data.shape[-3:], (N, Ma, Mb)))
        elif [e.key() for e in ret["idx"]] == want:
            den = S.lift(1)
            for e in pv:
                den = den * _dfact_atom(e.to_sym() * 2 - 1)
            for tail in ht:
                got = out.data[(0,) * (out.data.ndim - 3) + tail]
                atom = C.named_atom("S1", pv[3], pv[4], pv[5], pv[0], pv[1], pv[2], tail)
                M.eq(pfx + "/result/value" + str(list(tail)), got * got * den, atom * atom)
                M.eq(pfx + "/result/value-sign" + str(list(tail)), got * den.sqrt(), atom)


class CleanupAnyL:
    """_cleanup_intermediate_integrals (shared by the multipole-moment and the differential-operator integrals), for a table
    T[k, j, i, x, p_b, p_a] of ANY extents (n_k + 1, n_b + 1, n_a + 1, 3, K_b, K_a) and ANY order / component rows o_d = (o_x, o_y, o_z),
    b_s = (b_x, b_y, b_z), a_r = (a_x, a_y, a_z) that lie inside it (D, L_b, L_a rows: the shape of the harness):

        result[d, m_a, r, m_b, s] = sum over p_a, p_b of  T[o_dx, b_sx, a_rx, 0, p_b, p_a] T[o_dy, b_sy, a_ry, 1, p_b, p_a] T[o_dz, b_sz, a_rz, 2, p_b, p_a]
                                                          norm_a[r, p_a] norm_b[s, p_b] coeffs_a[p_a, m_a] coeffs_b[p_b, m_b]

    and every index used on T is in range."""

    function = "gbasis.integrals._moment_int._cleanup_intermediate_integrals (any extents, any components)"

    def shapes(self, tier):
        # K primitives, M segments per shell; R = (D, L_a, L_b) rows of orders / components of a / components of b
        out = [dict(K=[2, 1], M=[2, 1], R=[1, 1, 1]), dict(K=[1, 2], M=[1, 2], R=[2, 1, 2]), dict(K=[1, 1], M=[1, 1], R=[1, 3, 2])]
        if tier == "thorough":
            out.append(dict(K=[2, 2], M=[2, 2], R=[3, 3, 3]))
        return out

    def native(self, shape, M):
        """replay: concrete extents / rows from the counterexample (or defaults), a random table, the definition above"""
        mod = M.mods["gbasis.integrals._moment_int"]

        def ext(name, default):
            try:
                return max(0, min(4, int(M.env[name])))
            except Exception:
                return default

        Ka, Kb = shape["K"]
        Ma, Mb = shape["M"]
        D, La, Lb = shape.get("R", [1, 1, 1])
        n = [ext("nk", 2), ext("nb", 2), ext("na", 2)]
        defaults = [(1, 0, 2), (0, 2, 1), (2, 1, 0)]
        rows = [[[min(ext(pre + x + (str(r) if r else ""), defaults[r % 3][j]), n[t]) for j, x in enumerate("xyz")] for r in range(cnt)]
                for t, (pre, cnt) in enumerate((("o", D), ("b", Lb), ("a", La)))]
        import random

        rnd = random.Random(7)
        T = np.array([rnd.uniform(0.5, 1.5) for _ in range((n[0] + 1) * (n[1] + 1) * (n[2] + 1) * 3 * Kb * Ka)]).reshape(n[0] + 1, n[1] + 1, n[2] + 1, 3, Kb, Ka)
        na_, nb_ = M.vec("na_", (La, Ka), "pos"), M.vec("nb_", (Lb, Kb), "pos")
        ca, cb = M.vec("ca", (Ka, Ma)), M.vec("cb", (Kb, Mb))
        name = M.wanted or "anyLcleanup/native-result-equals-definition"
        try:
            out = mod._cleanup_intermediate_integrals(T, np.array(rows[0]), np.array(rows[2]), ca, na_, np.array(rows[1]), cb, nb_)
        except Exception as e:  # noqa
            M.true(name, False, "extents %s rows %s: the native function raised %s: %s" % (n, rows, type(e).__name__, e))
            return
        ok = tuple(np.shape(out)) == (D, Ma, La, Mb, Lb)
        worst = 0.0
        if ok:
            for d, ma, r, mb, s_ in itertools.product(range(D), range(Ma), range(La), range(Mb), range(Lb)):
                want = 0.0
                for pa in range(Ka):
                    for pb in range(Kb):
                        pr = 1.0
                        for x in range(3):
                            pr *= T[rows[0][d][x], rows[1][s_][x], rows[2][r][x], x, pb, pa]
                        want += pr * float(na_[r, pa]) * float(nb_[s_, pb]) * float(ca[pa, ma]) * float(cb[pb, mb])
                worst = max(worst, abs(float(out[d, ma, r, mb, s_]) - want) / max(1.0, abs(want)))
        M.true(name, ok and worst <= 1e-9, "extents %s rows %s: shape %s, worst relative deviation %.3g" % (n, rows, tuple(np.shape(out)), worst))

    def run(self, shape, M):
        if not M.symbolic:
            return self.native(shape, M)
        mod = M.mods["gbasis.integrals._moment_int"]
        Ka, Kb = shape["K"]
        Ma, Mb = shape["M"]
        D, La, Lb = shape.get("R", [1, 1, 1])
        ext = ["nk", "nb", "na"]
        names = [[[pre + x + (str(r) if r else "") for x in "xyz"] for r in range(cnt)] for pre, cnt in (("o", D), ("b", Lb), ("a", La))]
        sizes = ext + [nm for rows in names for row in rows for nm in row]
        na_, nb_ = M.vec("na_", (La, Ka), "pos"), M.vec("nb_", (Lb, Kb), "pos")
        ca, cb = M.vec("ca", (Ka, Ma)), M.vec("cb", (Kb, Mb))

        def arr(rows):
            a = np.empty((len(rows), 3), dtype=object)
            for r, row in enumerate(rows):
                for j, nm in enumerate(row):
                    a[r, j] = G.Aff.var(nm)
            return a

        def body(C_):
            T = G.GSpecTable([G.Aff.var(e) + 1 for e in ext], (3, Kb, Ka), "T")
            with bind.patched((mod, "np", G.GNp(mod.np)), (mod, "range", G.grange)):
                return mod._cleanup_intermediate_integrals(T, arr(names[0]), arr(names[2]), ca, na_, arr(names[1]), cb, nb_)

        def setup(C_):
            for e, rows in zip(ext, names):  # precondition: the rows lie inside the table
                for row in rows:
                    for nm in row:
                        C_.assumed.append(("le", G.Aff.var(nm), G.Aff.var(e)))

        cases = G.run_cases(sizes, body, setup)
        for cn, (C, out) in enumerate(cases):
            pfx = "anyLcleanup" if len(cases) == 1 else "anyLcleanup/case%d" % cn
            cp = _case_premise(C, sizes)
            nb = check_spec_reads(M, C, sizes, pfx, extra_prem=cp)
            M.true(pfx + "/table-read-with-checked-indices", nb >= 9 * D * La * Lb, "%d index-in-range obligations on the intermediate table" % nb)
            data = out.data if isinstance(out, G.GVal) else np.asarray(out, dtype=object)
            ok = tuple(data.shape) == (D, Ma, La, Mb, Lb) and not getattr(out, "sym", None)
            M.true(pfx + "/result/shape", ok, "%s (expected (D, M_a, L_a, M_b, L_b) = %s)" % (tuple(data.shape), (D, Ma, La, Mb, Lb)))
            if not ok:
                continue
            o, b, a = [[[G.Aff.var(nm) for nm in row] for row in rows] for rows in names]
            for d, ma, r, mb, s_ in itertools.product(range(D), range(Ma), range(La), range(Mb), range(Lb)):
                want = S.lift(0)
                for pa in range(Ka):
                    for pb in range(Kb):
                        pr = S.lift(1)
                        for x in range(3):
                            pr = pr * C.named_atom("T", o[d][x], b[s_][x], a[r][x], (x, pb, pa))
                        want = want + pr * na_[r, pa] * nb_[s_, pb] * ca[pa, ma] * cb[pb, mb]
                M.eq(pfx + "/result/value" + str([d, ma, r, mb, s_]), data[d, ma, r, mb, s_], want)


class _WrapperAnyL:
    """common part of the two wrappers  intermediate table -> clean-up:  the table is requested with extents that contain every
    row (np.max of each array), with the geometry forwarded unchanged, and the clean-up receives that table and the caller's
    arrays unchanged; its result is returned.  np.max / np.min of an array of symbolic integers are replaced by their contracts
    (an upper / a lower bound of every entry)."""

    modname = None
    fname = None
    callee = None
    pfx = None

    def shapes(self, tier):
        return [dict(K=[2, 1], M=[2, 1])]

    def _call(self, mod, geo, arrs, ca, na_, cb, nb_):
        raise NotImplementedError

    def _expected_callee_args(self, it, geo, same):
        raise NotImplementedError

    def run(self, shape, M):
        mod = M.mods[self.modname]
        Ka, Kb = shape["K"]
        Ma, Mb = shape["M"]
        A, B, Cm = M.vec("A", 3), M.vec("B", 3), M.vec("C", 3)
        ea, eb = M.vec("a", Ka, "pos"), M.vec("b", Kb, "pos")
        na_, nb_ = M.vec("na_", (1, Ka), "pos"), M.vec("nb_", (1, Kb), "pos")
        ca, cb = M.vec("ca", (Ka, Ma)), M.vec("cb", (Kb, Mb))
        if not M.symbolic:
            # replay / float: the wrapper on concrete rows - the table really requested must contain them
            rows = [np.array([[1, 0, 2]]), np.array([[0, 1, 1]]), np.array([[2, 0, 0]])]
            name = M.wanted or self.pfx + "/native-call-succeeds"
            try:
                out = self._call(mod, (A, B, Cm, ea, eb), rows, ca, na_, cb, nb_)
                M.true(name, tuple(np.shape(out)) == (1, Ma, 1, Mb, 1), "shape %s" % (tuple(np.shape(out)),))
            except Exception as e:  # noqa
                M.true(name, False, "rows (1,0,2), (0,1,1), (2,0,0): the native wrapper raised %s: %s" % (type(e).__name__, e))
            return
        names = [[pre + x for x in "xyz"] for pre in ("o", "b", "a")]
        bounds = ["mxo", "mxb", "mxa", "mno", "mnb", "mna"]
        sizes = [nm for r in names for nm in r] + bounds
        arrs = []
        for r in names:
            a = np.empty((1, 3), dtype=object)
            for j, nm in enumerate(r):
                a[0, j] = G.Aff.var(nm)
            arrs.append(a)

        def body(C_):
            seen = {}

            def which(x):
                for t, a in enumerate(arrs):
                    if x is a:
                        return t
                raise alg.Undecided("np.max / np.min of something that is not one of the caller's arrays")

            def gmax(x, *a_, **k_):
                if a_ or k_:
                    raise alg.Undecided("np.max with further arguments")
                return G.Aff.var(bounds[which(x)])

            def gmin(x, *a_, **k_):
                if a_ or k_:
                    raise alg.Undecided("np.min with further arguments")
                return G.Aff.var(bounds[3 + which(x)])

            def inter(*args):
                seen["inter"] = args
                return ("TABLE",)

            def clean(*args):
                seen["clean"] = args
                return ("RESULT",)

            table_token = []
            with bind.patched((mod, "np", G.GNp(mod.np, hooks={"max": gmax, "amax": gmax, "min": gmin, "amin": gmin})), (mod, self.callee, inter),
                              (mod, "_cleanup_intermediate_integrals", clean)):
                out = self._call(mod, (A, B, Cm, ea, eb), arrs, ca, na_, cb, nb_)
            return out, seen

        def setup(C_):
            for t, r in enumerate(names):
                for nm in r:
                    C_.assumed.append(("le", G.Aff.var(nm), G.Aff.var(bounds[t])))  # contract of np.max
                    C_.assumed.append(("ge", G.Aff.var(nm), G.Aff.var(bounds[3 + t])))  # contract of np.min

        cases = G.run_cases(sizes, body, setup)
        for cn, (C, (out, seen)) in enumerate(cases):
            pfx = self.pfx if len(cases) == 1 else "%s/case%d" % (self.pfx, cn)
            cp = _case_premise(C, sizes)
            env, _ = G._z3env()
            prem = _sizes_premise(env, sizes) + (cp(env) if cp else [])
            it, cl = seen.get("inter"), seen.get("clean")
            M.true(pfx + "/pre@intermediate/called", it is not None, "")
            M.true(pfx + "/pre@cleanup/called", cl is not None, "")
            if it is None or cl is None:
                continue

            def same(x, ref):
                x, ref = np.asarray(x, dtype=object).reshape(-1), np.asarray(ref, dtype=object).reshape(-1)
                return x.shape == ref.shape and all(alg.v_equal(S.expand(S.lift(u)), S.expand(S.lift(v))) for u, v in zip(x, ref))

            geo_ok, ext = self._expected_callee_args(it, (A, B, Cm, ea, eb), same)
            M.true(pfx + "/pre@intermediate/geometry-forwarded", geo_ok, "centres and exponents of a and b (and the centre of the moment) in the callee's order")
            # the requested extents contain every row: (extent for the orders, for b, for a)
            for t, (label, r) in enumerate(zip(("orders", "components-of-b", "components-of-a"), names)):
                e = ext[t]
                if not isinstance(e, (G.Aff, int, np.integer)):
                    M.true(pfx + "/pre@intermediate/extent-%s" % label, False, "not an integer expression: %r" % (e,))
                    continue
                for nm in r:
                    import z3

                    st, mdl = G.check_valid(prem + [G._cons_z3(C.assumed, env)], z3.And(G.Aff.of(e).z3(env) >= env(nm)))
                    M._rec(pfx + "/pre@intermediate/extent-%s-contains[%s]" % (label, nm), st, "z3-lia", G.LAST_SECS[0], detail=mdl or "", cex=_cex(mdl))
            M.true(pfx + "/pre@cleanup/arguments-forwarded", len(cl) == 8 and cl[0] == ("TABLE",) and cl[1] is arrs[0] and cl[2] is arrs[2] and cl[3] is ca and cl[4] is na_
                   and cl[5] is arrs[1] and cl[6] is cb and cl[7] is nb_,
                   "(table, orders, components of a, coefficients of a, norms of a, components of b, coefficients of b, norms of b)")
            M.true(pfx + "/result-is-the-cleanup-result", out == ("RESULT",), "")


class MomentWrapperAnyL(_WrapperAnyL):
    function = "gbasis.integrals._moment_int._compute_multipole_moment_integrals (any orders, any components)"
    modname = "gbasis.integrals._moment_int"
    callee = "_compute_multipole_moment_integrals_intermediate"
    pfx = "anyLmomentwrap"

    def _call(self, mod, geo, arrs, ca, na_, cb, nb_):
        A, B, Cm, ea, eb = geo
        return mod._compute_multipole_moment_integrals(Cm, arrs[0], A, arrs[2], ea, ca, na_, B, arrs[1], eb, cb, nb_)

    def _expected_callee_args(self, it, geo, same):
        A, B, Cm, ea, eb = geo
        if len(it) != 8:
            return False, (None, None, None)
        return (same(it[0], Cm) and same(it[2], A) and same(it[4], ea) and same(it[5], B) and same(it[7], eb)), (it[1], it[6], it[3])


class DiffWrapperAnyL(_WrapperAnyL):
    function = "gbasis.integrals._diff_operator_int._compute_differential_operator_integrals (any orders, any components)"
    modname = "gbasis.integrals._diff_operator_int"
    callee = "_compute_differential_operator_integrals_intermediate"
    pfx = "anyLdiffwrap"

    def _call(self, mod, geo, arrs, ca, na_, cb, nb_):
        A, B, Cm, ea, eb = geo
        return mod._compute_differential_operator_integrals(arrs[0], A, arrs[2], ea, ca, na_, B, arrs[1], eb, cb, nb_)

    def _expected_callee_args(self, it, geo, same):
        A, B, Cm, ea, eb = geo
        if len(it) != 7:
            return False, (None, None, None)
        return (same(it[1], A) and same(it[3], ea) and same(it[4], B) and same(it[6], eb)), (it[0], it[5], it[2])


def _stub_shell(cls, angmom, coord, exps, coeffs, comps):
    """a shell whose angular momentum is a symbolic integer: a subclass instance (so `isinstance` checks of the code under
    contract pass) whose attributes are what the harness gives - the contract of GeneralizedContractionShell's read-only
    interface (the components rows add up to the angular momentum: a premise of the run)"""

    class SymbolicShell(cls):
        angmom = property(lambda self: angmom)
        coord = property(lambda self: coord)
        exps = property(lambda self: exps)
        coeffs = property(lambda self: coeffs)
        angmom_components_cart = property(lambda self: comps)

        def __init__(self):  # noqa - none of the real constructor's conversions
            pass

    return SymbolicShell()


class ERIBlockAnyL:
    """ElectronRepulsionIntegral.construct_array_contraction for shells of ANY angular momenta l_1..l_4 >= 0 (symbolic), with both
    kernels replaced by their contracts.  Every comparison the routine makes on the angular momenta splits the run into cases; in
    every case: the closed-form kernel is used only if all four shells are s shells and the general kernel only if they are not
    (its precondition); each shell's centre, l, components, exponents, coefficients stay together; the pairs are passed as
    (1,2|3,4) or, swapped as wholes, as (3,4|1,2) with the result transposed back; the class's Boys function is handed over;
    out[m1,c1,m2,c2,m3,c3,m4,c4] = K[c1,c2,c3,c4,m1,m2,m3,m4] of the (possibly swapped) kernel call.  The numbers of segments and
    of component rows are those of the harness shape."""

    function = "gbasis.integrals.electron_repulsion.ElectronRepulsionIntegral.construct_array_contraction (any angular momenta)"

    def shapes(self, tier):
        return [dict(M=[2, 1, 1, 2], R=[1, 2, 3, 1], K=[1, 2, 1, 1])]

    def native(self, shape, M):
        from .coulomb import ERIBlock

        def ext(name, default):
            try:
                return max(0, min(2, int(M.env[name])))
            except Exception:
                return default

        ls = [ext("l1", 0), ext("l2", 0), ext("l3", 1), ext("l4", 1)]
        before = len(M.results)
        wanted, M.wanted = M.wanted, None
        name = wanted or "anyLeriblock/native-block-obeys-the-per-shape-contract"
        try:
            ERIBlock().run(dict(l=ls, M=[1, 2, 1, 1]), M)
        except Exception as e:  # noqa
            M.wanted = wanted
            del M.results[before:]
            M.true(name, False, "l = %s: the native routine raised %s: %s" % (ls, type(e).__name__, e))
            return
        finally:
            M.wanted = wanted
        new = M.results[before:]
        del M.results[before:]
        bad = [r["name"] for r in new if r["status"] == "failed"]
        for r in new:
            if r["status"] == "value":
                from engine import runner

                g, e = runner._parse_num(r["got"]), runner._parse_num(r["exp"])
                if not (abs(g - e) <= 1e-9 * max(abs(e), abs(g), 1)):
                    bad.append(r["name"])
        M.true(name, not bad, "l = %s: %d of %d clauses of the per-shape contract fail natively; first: %s" % (ls, len(bad), len(new), bad[:2]))

    def run(self, shape, M):
        if not M.symbolic:
            return self.native(shape, M)
        import z3

        er = M.mods["gbasis.integrals.electron_repulsion"]
        cls = M.mods["gbasis.contractions"].GeneralizedContractionShell
        Mn, R, K = shape["M"], shape["R"], shape["K"]
        sizes = ["l1", "l2", "l3", "l4"]
        ls = [G.Aff.var(n) for n in sizes]
        shells = []
        for i in range(4):
            comps = np.empty((R[i], 3), dtype=object)
            for r in range(R[i]):
                for j in range(3):
                    comps[r, j] = G.Aff.var("c%d_%d%s" % (i + 1, r, "xyz"[j]))
            shells.append(_stub_shell(cls, ls[i], M.vec("X%d" % i, 3), M.vec("e%d" % i, K[i], "pos"), M.vec("d%d" % i, (K[i], Mn[i])), comps))
        f = er.ElectronRepulsionIntegral.construct_array_contraction

        def body(C_):
            seen = {}

            def zero_kernel(boys, *a):
                seen["zero"] = (boys, a)
                seen["cube"] = M.vec("K", (1, 1, 1, 1) + tuple(np.shape(x)[1] for x in a[2::3]), "opq")
                return seen["cube"].copy()

            def gen_kernel(boys, *a):
                seen["gen"] = (boys, a)
                seen["cube"] = M.vec("K", tuple(len(c) for c in a[2::5]) + tuple(np.shape(x)[1] for x in a[4::5]), "opq")
                return seen["cube"].copy()

            with bind.patched((er, "_compute_two_elec_integrals_angmom_zero", zero_kernel), (er, "_compute_two_elec_integrals", gen_kernel)):
                out = f(*shells)
            return out, seen

        cases = G.run_cases(sizes, body, max_cases=64)
        M.true("anyLeriblock/cases", len(cases) >= 2, "%d cases of the comparisons on the angular momenta" % len(cases))
        env, _ = G._z3env()
        for cn, (C, (out, seen)) in enumerate(cases):
            pfx = "anyLeriblock/case%d" % cn
            prem = _sizes_premise(env, sizes) + [G._cons_z3(C.assumed, env)]
            s0 = z3.Solver()
            s0.add(z3.And(prem))
            if s0.check() == z3.unsat:
                M._rec(pfx + "/unreachable", "discharged", "z3-lia", 0.0, detail="the assumptions of this case contradict each other", vacuous=True)
                continue
            zero, gen = "zero" in seen, "gen" in seen
            M.true(pfx + "/pre@kernel/exactly-one-kernel", zero != gen, "closed form: %s, general kernel: %s" % (zero, gen))
            if zero == gen:
                continue
            allz = z3.And([env(n) == 0 for n in sizes])
            # closed form only for four s shells (it ignores l); the general kernel's precondition: not all four are s shells
            st, mdl = G.check_valid(prem, allz if zero else z3.Not(allz))
            M._rec(pfx + "/pre@kernel/" + ("closed-form-only-for-all-s" if zero else "general-kernel-not-for-all-s"), st, "z3-lia", G.LAST_SECS[0], detail=mdl or "", cex=_cex(mdl))
            boys, a = seen["zero"] if zero else seen["gen"]
            per = 3 if zero else 5
            ok_n = len(a) == 4 * per
            M.true(pfx + "/pre@kernel/argument-count", ok_n, "%d arguments" % len(a))
            if not ok_n:
                continue
            order = [0, 1, 2, 3] if a[0] is shells[0].coord else ([2, 3, 0, 1] if a[0] is shells[2].coord else None)
            M.true(pfx + "/pre@kernel/pair-order", order is not None, "shells passed as (1,2,3,4) or (3,4,1,2): %s" % order)
            if order is None:
                continue
            ok = True
            for i, sh in enumerate([shells[j] for j in order]):
                g = a[per * i:per * (i + 1)]
                if zero:
                    ok &= g[0] is sh.coord and g[1] is sh.exps and g[2] is sh.coeffs
                else:
                    ok &= g[0] is sh.coord and isinstance(g[1], G.Aff) and g[1].key() == sh.angmom.key() and g[2] is sh.angmom_components_cart and g[3] is sh.exps and g[4] is sh.coeffs
            M.true(pfx + "/pre@kernel/args", bool(ok), "each shell's centre, l, components, exponents, coefficients stay together, pairs in order %s" % order)
            bf = er.ElectronRepulsionIntegral.__dict__.get("boys_func", None)
            M.true(pfx + "/pre@kernel/boys", boys is er.ElectronRepulsionIntegral.boys_func or getattr(boys, "__func__", boys) is getattr(bf, "__func__", bf),
                   "the class's Boys function is handed to the kernel")
            Ls = [1, 1, 1, 1] if zero else R
            want = (Mn[0], Ls[0], Mn[1], Ls[1], Mn[2], Ls[2], Mn[3], Ls[3])
            shp = tuple(np.shape(out))
            M.true(pfx + "/shape", shp == want, "%s, expected %s" % (shp, want))
            if shp != want:
                continue
            cube = M.to_spec(seen["cube"])
            for idx in np.ndindex(*want):
                mm = [idx[0], idx[2], idx[4], idx[6]]
                cc = [idx[1], idx[3], idx[5], idx[7]]
                M.eq(pfx + "/out" + str(list(idx)), out[idx], cube[tuple(cc[i] for i in order) + tuple(mm[i] for i in order)])
        # the cases together cover every (l1, l2, l3, l4) >= 0
        st, mdl = G.check_valid(_sizes_premise(env, sizes), z3.Or([G._cons_z3(C.assumed, env) for C, _ in cases]))
        M._rec("anyLeriblock/cases-cover-all-angular-momenta", st, "z3-lia", G.LAST_SECS[0], detail=mdl or "", cex=_cex(mdl))


class PointChargeBlockAnyL:
    """PointChargeIntegral.construct_array_contraction for shells of ANY angular momenta l_1, l_2 >= 0 and ANY component rows
    (symbolic integers 0 <= k <= l), with the kernel replaced by its contract (OneElecKernelAnyL: a table
    K[a_x, a_y, a_z, b_x, b_y, b_z, n, m_a, m_b] of extents (l_a + 1)^3 (l_b + 1)^3, requested with l_a >= l_b).  In both cases of
    the comparison l_1 < l_2:  the kernel is asked for the shell of higher l first (its precondition) with each shell's centre,
    l, exponents, coefficients kept together, the points and the class's Boys function handed over; every component index used
    on the table is in range; out[m_1, r_1, m_2, r_2, n] = -q_n K[comp_1[r_1], comp_2[r_2], n, m_1, m_2]  (or, swapped,
    -q_n K[comp_2[r_2], comp_1[r_1], n, m_2, m_1]).  Segments, component rows and points as in the harness shape."""

    function = "gbasis.integrals.point_charge.PointChargeIntegral.construct_array_contraction (any angular momenta, any components)"

    def shapes(self, tier):
        return [dict(M=[2, 1], R=[2, 3], K=[1, 2], N=2), dict(M=[1, 2], R=[1, 2], K=[1, 1], N=1)]

    def native(self, shape, M):
        from .coulomb import PointChargeBlock

        def ext(name, default):
            try:
                return max(0, min(3, int(M.env[name])))
            except Exception:
                return default

        la, lb = ext("l1", 1), ext("l2", 2)
        before = len(M.results)
        wanted, M.wanted = M.wanted, None
        name = wanted or "anyLpcblock/native-block-obeys-the-per-shape-contract"
        try:
            PointChargeBlock().run(dict(la=la, lb=lb, M=list(shape["M"]), N=shape["N"]), M)
        except Exception as e:  # noqa
            M.wanted = wanted
            del M.results[before:]
            M.true(name, False, "l = (%d, %d): the native routine raised %s: %s" % (la, lb, type(e).__name__, e))
            return
        finally:
            M.wanted = wanted
        new = M.results[before:]
        del M.results[before:]
        bad = [r["name"] for r in new if r["status"] == "failed"]
        for r in new:
            if r["status"] == "value":
                from engine import runner

                g, e = runner._parse_num(r["got"]), runner._parse_num(r["exp"])
                if not (abs(g - e) <= 1e-9 * max(abs(e), abs(g), 1)):
                    bad.append(r["name"])
        M.true(name, not bad, "l = (%d, %d): %d of %d clauses of the per-shape contract fail natively; first: %s" % (la, lb, len(bad), len(new), bad[:2]))

    def run(self, shape, M):
        if not M.symbolic:
            return self.native(shape, M)
        import z3

        pc = M.mods["gbasis.integrals.point_charge"]
        cls = M.mods["gbasis.contractions"].GeneralizedContractionShell
        Mn, R, K, N = shape["M"], shape["R"], shape["K"], shape["N"]
        lnames = ["l1", "l2"]
        ls = [G.Aff.var(n) for n in lnames]
        cn = [[["c%d_%d%s" % (i + 1, r, x) for x in "xyz"] for r in range(R[i])] for i in range(2)]
        sizes = lnames + [nm for rows in cn for row in rows for nm in row]
        shells = []
        for i in range(2):
            comps = np.empty((R[i], 3), dtype=object)
            for r in range(R[i]):
                for j in range(3):
                    comps[r, j] = G.Aff.var(cn[i][r][j])
            shells.append(_stub_shell(cls, ls[i], M.vec("X%d" % i, 3), M.vec("e%d" % i, K[i], "pos"), M.vec("d%d" % i, (K[i], Mn[i])), comps))
        pts, q = M.vec("R", (N, 3)), M.vec("q", N)
        f = pc.PointChargeIntegral.construct_array_contraction

        def body(C_):
            seen = {}

            def kernel(coords, boys, ca, anga, ea, da, cb, angb, eb, db):
                seen["args"] = (coords, boys, ca, anga, ea, da, cb, angb, eb, db)
                return G.GSpecTable([G.Aff.of(anga) + 1] * 3 + [G.Aff.of(angb) + 1] * 3, (np.shape(coords)[0], np.shape(da)[1], np.shape(db)[1]), "K")

            with bind.patched((pc, "np", G.GNp(pc.np)), (pc, "_compute_one_elec_integrals", kernel)):
                out = f(shells[0], shells[1], pts, q)
            return out, seen

        def setup(C_):
            for i in range(2):  # contract of the shell: every component lies between 0 and l (the rows add up to l)
                for row in cn[i]:
                    for nm in row:
                        C_.assumed.append(("le", G.Aff.var(nm), ls[i]))
                    C_.assumed.append(("eq", G.Aff.var(row[0]) + G.Aff.var(row[1]) + G.Aff.var(row[2]), ls[i]))

        cases = G.run_cases(sizes, body, setup)
        env, _ = G._z3env()
        M.true("anyLpcblock/cases", len(cases) >= 2, "%d cases of the comparison of the angular momenta" % len(cases))
        for cnum, (C, (out, seen)) in enumerate(cases):
            pfx = "anyLpcblock/case%d" % cnum
            cp = _case_premise(C, sizes)
            prem = _sizes_premise(env, sizes) + (cp(env) if cp else [])
            a = seen.get("args")
            M.true(pfx + "/pre@kernel/called", a is not None, "")
            if a is None:
                continue
            order = [0, 1] if a[2] is shells[0].coord else ([1, 0] if a[2] is shells[1].coord else None)
            M.true(pfx + "/pre@kernel/which-shell-first", order is not None, "the first centre handed to the kernel is the centre of one of the two shells")
            if order is None:
                continue
            hi, lo = shells[order[0]], shells[order[1]]
            ok = (a[0] is pts and isinstance(a[3], G.Aff) and a[3].key() == hi.angmom.key() and a[4] is hi.exps and a[5] is hi.coeffs and a[6] is lo.coord
                  and isinstance(a[7], G.Aff) and a[7].key() == lo.angmom.key() and a[8] is lo.exps and a[9] is lo.coeffs)
            M.true(pfx + "/pre@kernel/args", bool(ok), "points; each shell's centre, l, exponents, coefficients stay together (order %s)" % order)
            if not ok:
                continue
            st, mdl = G.check_valid(prem, a[3].z3(env) >= a[7].z3(env))
            M._rec(pfx + "/pre@kernel/higher-angular-momentum-first", st, "z3-lia", G.LAST_SECS[0], detail=mdl or "", cex=_cex(mdl))
            bf = pc.PointChargeIntegral.__dict__["boys_func"]
            M.true(pfx + "/pre@kernel/boys", a[1] is pc.PointChargeIntegral.boys_func or getattr(a[1], "__func__", a[1]) is getattr(bf, "__func__", bf), "the class's Boys function is handed to the kernel")
            nb = check_spec_reads(M, C, sizes, pfx, extra_prem=cp)
            M.true(pfx + "/table-read-with-checked-indices", nb >= 6 * R[0] * R[1], "%d index-in-range obligations on the kernel's table" % nb)
            data = out.data if isinstance(out, G.GVal) else np.asarray(out, dtype=object)
            want = (Mn[0], R[0], Mn[1], R[1], N)
            okshape = tuple(data.shape) == want and not getattr(out, "sym", None)
            M.true(pfx + "/shape", okshape, "%s, expected %s" % (tuple(data.shape), want))
            if not okshape:
                continue
            sq = M.to_spec(q)
            comp = [[[G.Aff.var(nm) for nm in row] for row in cn[i]] for i in range(2)]
            for m1, r1, m2, r2, n in itertools.product(range(Mn[0]), range(R[0]), range(Mn[1]), range(R[1]), range(N)):
                k1, k2 = comp[0][r1], comp[1][r2]
                if order == [0, 1]:
                    src = C.named_atom("K", *(k1 + k2 + [(n, m1, m2)]))
                else:
                    src = C.named_atom("K", *(k2 + k1 + [(n, m2, m1)]))
                M.eq(pfx + "/out" + str([m1, r1, m2, r2, n]), data[m1, r1, m2, r2, n], -sq[n] * src)
        st, mdl = G.check_valid(_sizes_premise(env, sizes), z3.Or([G._cons_z3([c for c in C.assumed if all(nm in lnames for nm in set(c[1].t) | set(c[2].t))], env) for C, _ in cases]))
        M._rec("anyLpcblock/cases-cover-all-angular-momenta", st, "z3-lia", G.LAST_SECS[0], detail=mdl or "", cex=_cex(mdl))
