"""Contracts that are UNBOUNDED in the angular momenta / orders: generic-element execution of the real recursion
kernels (engine/generic.py).  The specification of the table is the family of recurrences its entries obey
(Obara-Saika relations for the one-dimensional multipole-moment integrals S[k, j, i] = <x_A^i | x_C^k | x_B^j>):

    S[0,0,0]   = sqrt(pi / p) exp(-mu X_AB^2)
    S[k,j,i+1] = X_PA S[k,j,i] + (i S[k,j,i-1] + j S[k,j-1,i] + k S[k-1,j,i]) / 2p
    S[k,j+1,i] = X_PB S[k,j,i] + (i S[k,j,i-1] + j S[k,j-1,i] + k S[k-1,j,i]) / 2p
    S[k+1,j,i] = X_PC S[k,j,i] + (i S[k,j,i-1] + j S[k,j-1,i] + k S[k-1,j,i]) / 2p

with p = a + b, mu = a b / p, P = (a A + b B) / p.  That these relations characterise the integrals is trusted
calculus; the per-shape contract contracts.moment_int:MomentIntermediate proves, independently, that the very same
real function equals the CLOSED-FORM Gaussian moments for every extent up to 8 (so the two specifications are tied
together on that range).  What is proved here, for ALL extents n_k, n_b, n_a >= 0: every element the code writes is
the right-hand side of one of the relations at that index, every element it reads was written before, every integer
index is in range, aligned slices have equal length, and at return the whole table has been written."""
import itertools

import numpy as np

from engine import alg, bind
from engine import generic as G
from engine import sym as S


def _sizes_premise(env, sizes):
    return [env(n) >= 0 for n in sizes]


def _cex(mdl):
    """z3 model text '[na = 3, nk = 0, ...]' -> counterexample record (extents for the native replay)"""
    if not mdl:
        return None
    env = {}
    for part in mdl.strip("[]").split(","):
        if "=" in part:
            k, v = part.split("=", 1)
            try:
                env[k.strip()] = str(int(v.strip()))
            except ValueError:
                pass
    return {"env": env}


class MomentRecursionAnyL:
    """_compute_multipole_moment_integrals_intermediate fills integrals[k, j, i] = S[k, j, i] for ALL
    order_moment_max, angmom_b_max, angmom_a_max >= 0 (generic-element execution; see the module docstring)"""

    function = "gbasis.integrals._moment_int._compute_multipole_moment_integrals_intermediate (any angular momentum, any moment order)"

    def shapes(self, tier):
        return [dict(K=[2, 1])]

    def native(self, shape, M):
        """replay of a counterexample: the extents the solver found (or 2, 3, 3) are run natively and the whole table is
        compared with the closed-form Gaussian moments (the specification of the per-shape contract)"""
        from specs.gauss1d import Gauss1D

        mod = M.mods["gbasis.integrals._moment_int"]

        def ext(name, default):
            try:
                return max(0, min(8, int(M.env[name])))
            except Exception:
                return default

        nk, nb, na = ext("nk", 2), ext("nb", 3), ext("na", 3)
        Ka, Kb = shape["K"]
        A, B, Cm = M.vec("A", 3), M.vec("B", 3), M.vec("C", 3)
        ea, eb = M.vec("a", Ka, "pos"), M.vec("b", Kb, "pos")
        out = mod._compute_multipole_moment_integrals_intermediate(Cm, nk, A, na, ea, B, nb, eb)
        sA, sB, sC, sa, sb = map(M.to_spec, (A, B, Cm, ea, eb))
        worst, where = 0.0, None
        for pa in range(Ka):
            for pb in range(Kb):
                for ax in range(3):
                    g = Gauss1D(M.SF, sa[pa], sA[ax], sb[pb], sB[ax], sC[ax])
                    for k in range(nk + 1):
                        for j in range(nb + 1):
                            for i in range(na + 1):
                                want = g.G(i, j, k)
                                got = out[k, j, i, ax, pb, pa]
                                err = abs(float(got) - float(want)) / max(1.0, abs(float(want)))
                                if not (err <= worst):
                                    worst, where = err, (k, j, i, ax, pb, pa)
        name = M.wanted or "anyL/native-table-equals-closed-form"
        M.true(name, worst <= 1e-9, "extents (n_k, n_b, n_a) = (%d, %d, %d): worst relative deviation of the native table from the closed-form moments %.3g at %s"
               % (nk, nb, na, worst, where))

    def run(self, shape, M):
        if not M.symbolic:
            return self.native(shape, M)
        import z3

        mod = M.mods["gbasis.integrals._moment_int"]
        Ka, Kb = shape["K"]
        A, B, Cm = M.vec("A", 3), M.vec("B", 3), M.vec("C", 3)
        ea, eb = M.vec("a", Ka, "pos"), M.vec("b", Kb, "pos")
        sizes = ["nk", "nb", "na"]
        C = G.Ctx(sizes)
        G.CTX[0] = C
        try:
            with bind.patched((mod, "np", G.GNp(mod.np)), (mod, "range", G.grange)):
                out = mod._compute_multipole_moment_integrals_intermediate(Cm, G.Aff.var("nk"), A, G.Aff.var("na"), ea, B, G.Aff.var("nb"), eb)
        finally:
            G.CTX[0] = None
        M.true("anyL/returns-the-table", isinstance(out, G.GArray) and [d.key() for d in out.dims] == [(G.Aff.var(n) + 1).key() for n in sizes]
               and out.tail == (3, Kb, Ka), "shape (n_k+1, n_b+1, n_a+1, 3, K_b, K_a)")
        writes = [e for e in C.events if e["kind"] == "write"]
        reads = [e for e in C.events if e["kind"] == "read"]
        M.true("anyL/events", len(writes) >= 4 and len(reads) >= 4, "%d slice assignments, %d table reads recorded" % (len(writes), len(reads)))
        env, _cache = G._z3env()
        prem = _sizes_premise(env, sizes)
        dims = {0: "nk", 1: "nb", 2: "na"}

        # ---- specification side: quantities from the inputs (independent of the code's variables)
        def geom(x, pb, pa):
            a, b = ea[pa], eb[pb]
            p = a + b
            Px = (a * A[x] + b * B[x]) / p
            return dict(p=p, PA=Px - A[x], PB=Px - B[x], PC=Px - Cm[x])

        def spec_rhs(axis, idx, tail):
            """right-hand side of the recurrence that raises `axis` to reach idx; None if idx[axis] is the constant 0"""
            k, j, i = idx
            low = [k, j, i]
            low[axis] = low[axis] - 1
            if idx[axis].is_const() and idx[axis].c == 0:
                return None, None
            g = geom(*tail)
            lk, lj, li = low
            X = (g["PC"], g["PB"], g["PA"])[axis]
            tot = X * C.atom(lk, lj, li, tail)
            acc = S.lift(0)
            for ax2, coef in ((2, li), (1, lj), (0, lk)):
                if coef.is_const() and coef.c == 0:
                    continue
                nb_ = [lk, lj, li]
                nb_[ax2] = nb_[ax2] - 1
                acc = acc + coef.to_sym() * C.atom(nb_[0], nb_[1], nb_[2], tail)
            return tot + acc / (g["p"] * 2), low

        # ---- value obligations
        for n, w in enumerate(writes):
            name = "anyL/stmt%02d[%r,%r,%r]" % (n, w["idx"][0], w["idx"][1], w["idx"][2])
            wprem = prem + [G._cons_z3(w["cons"], env)]
            sol0 = z3.Solver()
            sol0.add(z3.And(wprem))
            if sol0.check() == z3.unsat:
                M._rec(name + "/never-executes-with-an-element", "discharged", "z3-lia", 0.0, detail="empty target for all extents", vacuous=True)
                continue
            # integer indices inside the table, aligned slices of equal extent
            for e, D in w["bounds"]:
                st, mdl = G.check_valid(wprem, z3.And(e.z3(env) >= 0, e.z3(env) < D.z3(env)))
                M._rec(name + "/index-in-range[%r]" % e, st, "z3-lia", 0.0, detail=mdl or "", cex=_cex(mdl))
            for la, ra in w.get("lens", []):
                # for every generic position: inside the target slice <=> inside the source slice
                pv = z3.Int("q")
                inl = z3.And([la.lo.z3(env) + pv < ub.z3(env) for ub in la.ubs])
                inr = z3.And([ra.lo.z3(env) + pv < ub.z3(env) for ub in ra.ubs])
                st, mdl = G.check_valid(prem + [G._cons_z3(G.loop_cons(w["loops"]), env), pv >= 0], inl == inr)
                M._rec(name + "/aligned-slices-equal-length", st, "z3-lia", 0.0, detail=mdl or "", cex=_cex(mdl))
            # generic positions / loop variables that the constraints pin to one value (a slice such as 1:2 has at most
            # one element): substitute them, in the index and in the value
            forced = {}
            for v in sorted(G._vars(w["cons"], w["idx"]) - set(sizes)):
                sol = z3.Solver()
                sol.add(z3.And(wprem))
                if sol.check() != z3.sat:
                    break
                c = sol.model().eval(env(v), model_completion=True).as_long()
                if G.check_valid(wprem, env(v) == c)[0] == "discharged":
                    forced[v] = c
            def pin(a):
                return G.Aff({n: cf for n, cf in a.t.items() if n not in forced}, a.c + sum(cf * forced[n] for n, cf in a.t.items() if n in forced))
            from engine import subst
            Cx = alg.ctx()
            senv = {Cx.byname[n]: alg.Value.const(c) for n, c in forced.items() if n in Cx.byname}
            # value: equals the specification at the written index
            k, j, i = [pin(e) for e in w["idx"]]
            allzero = all(e.is_const() and e.c == 0 for e in (k, j, i))
            for tail in itertools.product(range(3), range(Kb), range(Ka)):
                got = w["value"][(0,) * (w["value"].ndim - 3) + tail]
                if allzero:
                    a, b = ea[tail[2]], eb[tail[1]]
                    want = M.SF.sqrt(M.SF.pi / (a + b)) * M.SF.exp(-(a * b / (a + b)) * (A[tail[0]] - B[tail[0]]) * (A[tail[0]] - B[tail[0]]))
                    M.eq(name + "/base-case" + str(list(tail)), got, want)
                    continue
                vg = subst.substitute_all(S.expand(S.lift(got)), senv)
                matched = None
                for axis in (2, 1, 0):
                    rhs, low = spec_rhs(axis, (k, j, i), tail)
                    if rhs is None:
                        continue
                    if alg.v_equal(vg, subst.substitute_all(S.expand(S.lift(rhs)), senv)):
                        matched = (axis, low)
                        break
                M._rec(name + "/value-is-a-recurrence-of-the-specification" + str(list(tail)), "discharged" if matched else "failed", "polyid", 0.0,
                       detail="matches the %s-raising relation" % "kji"[matched[0]] if matched else "no relation of the specification gives this value",
                       got=alg.fmt(vg, 8), cex={"env": {}} if not matched else None)
                if matched and tail == (0, 0, 0):
                    # the relation is used at a legitimate place: the lowered index is >= 0
                    st, mdl = G.check_valid(wprem, matched[1][matched[0]].z3(env) >= 0)
                    M._rec(name + "/relation-applied-at-nonnegative-index", st, "z3-lia", 0.0, detail=mdl or "", cex=_cex(mdl))

        # ---- every element read was written earlier (earlier statement, or earlier iteration of the same loop)
        for n, r in enumerate(reads):
            target = [e.z3(env) for e in r["idx"]]
            rprem = prem + [G._cons_z3(r["wcons"], env)]
            alts = []
            for w in writes:
                rl = {l[0]: l for l in r["loops"]}
                common = [l for l in w["loops"] if l[0] in rl]
                if common:
                    lid, tname = common[-1][0], common[-1][1]
                    alts.append(G.region_formula(w, target, env, sizes, order=(lid, tname, r["seq"])))
                elif w["seq"] < r["seq"]:
                    alts.append(G.region_formula(w, target, env, sizes))
            st, mdl = G.check_valid(rprem, z3.Or(alts) if alts else z3.BoolVal(False))
            M._rec("anyL/read%02d[%r,%r,%r]@stmt-seq%d/written-before" % (n, r["idx"][0], r["idx"][1], r["idx"][2], r["seq"]), st, "z3-lia", 0.0, detail=mdl or "", cex=_cex(mdl))
            for e, D in r["bounds"]:
                st, mdl = G.check_valid(rprem, z3.And(e.z3(env) >= 0, e.z3(env) < D.z3(env)))
                M._rec("anyL/read%02d/index-in-range[%r]" % (n, e), st, "z3-lia", 0.0, detail=mdl or "", cex=_cex(mdl))

        # ---- coverage: at return every element of the table has been written
        kk, jj, ii = z3.Int("ck"), z3.Int("cj"), z3.Int("ci")
        box = [kk >= 0, kk <= env("nk"), jj >= 0, jj <= env("nb"), ii >= 0, ii <= env("na")]
        st, mdl = G.check_valid(prem + box, z3.Or([G.region_formula(w, [kk, jj, ii], env, sizes) for w in writes]), timeout_ms=60000)
        M._rec("anyL/coverage/every-element-written", st, "z3-lia", 0.0, detail=mdl or "", cex=_cex(mdl))
