"""Contracts on gbasis/integrals/_moment_int.py (C01, C07, and the base of C02/C08)."""
import numpy as np

from engine import bind
from specs.gauss1d import Gauss1D

from .common import Frame, cart_components, tag

FN = "gbasis.integrals._moment_int."


class MomentIntermediate:
    fp = True  # also sampled on the unmodified float64 code (bounded stand-in for rounding)
    """ensures out[k,j,i,ax,pb,pa] = int (x-A)^i (x-B)^j (x-C)^k exp(-a(x-A)^2 - b(x-B)^2) dx
    for every index; frame: assigns nothing; fresh result."""

    function = FN + "_compute_multipole_moment_integrals_intermediate"

    def shapes(self, tier):
        out = []
        if tier == "quick":
            out.append(dict(param="diag", K=[1, 1], om=2, am=3, bm=3))
            out.append(dict(param="diag", K=[1, 1], om=0, am=5, bm=5))
            out.append(dict(param="gen", K=[2, 1], om=1, am=2, bm=1))
            out.append(dict(param="gen", K=[1, 2], om=1, am=1, bm=2))
            out.append(dict(param="gen", K=[2, 2], om=1, am=1, bm=1))
        else:
            for om in range(0, 5):
                out.append(dict(param="diag", K=[1, 1], om=om, am=5, bm=5))
            out.append(dict(param="diag", K=[1, 1], om=0, am=9, bm=5))
            out.append(dict(param="diag", K=[1, 1], om=1, am=7, bm=6))
            out.append(dict(param="diag", K=[1, 1], om=4, am=2, bm=5))
            out.append(dict(param="diag", K=[1, 1], om=3, am=0, bm=0))
            out.append(dict(param="diag", K=[1, 1], om=0, am=0, bm=3))
            out.append(dict(param="diag", K=[1, 1], om=2, am=1, bm=0))
            for K in ([2, 1], [1, 2], [2, 2], [3, 2]):
                out.append(dict(param="gen", K=K, om=2, am=2, bm=2))
            out.append(dict(param="gen", K=[4, 3], om=1, am=1, bm=1))
        # the call shape used by _diff_operator_int: arguments already reshaped to 6-D
        out.append(dict(param="gen6", K=[2, 1], om=0, am=2, bm=1))
        return out

    def inputs(self, shape, M):
        Ka, Kb = shape["K"]
        if shape["param"] == "diag":
            P = M.vec("P", 3)
            AB = M.vec("AB", 3)
            X = M.vec("X", 3)
            a = M.pos("a")
            b = M.pos("b")
            A = M.array(P + AB * (b / (a + b)))
            B = M.array(P - AB * (a / (a + b)))
            C = M.array(P - X)
            ea, eb = M.array([a]), M.array([b])
        else:
            B = M.vec("B", 3)
            A = M.array(B + M.vec("AB", 3))
            C = M.array(B - M.vec("CB", 3))
            ea, eb = M.vec("a", Ka, "pos"), M.vec("b", Kb, "pos")
        return A, B, C, ea, eb

    def run(self, shape, M):
        mod = M.mods["gbasis.integrals._moment_int"]
        A, B, C, ea, eb = self.inputs(shape, M)
        om, am, bm = shape["om"], shape["am"], shape["bm"]
        fr = Frame(coord_moment=C, coord_a=A, exps_a=ea, coord_b=B, exps_b=eb)
        if shape["param"] == "gen6":
            n = None
            out = mod._compute_multipole_moment_integrals_intermediate(
                C, om, A[n, n, n, :, n, n], am, ea[n, n, n, n, n, :], B[n, n, n, :, n, n], bm, eb[n, n, n, n, :, n]
            )
            # (the 11-D intermediates broadcast back into the 6-D buffer: same contract as below)
        else:
            out = mod._compute_multipole_moment_integrals_intermediate(C, om, A, am, ea, B, bm, eb)
        fr.check(M, "intermediate", out)
        out = M.shaped("intermediate/shape", out, (om + 1, bm + 1, am + 1, 3, eb.size, ea.size))
        sA, sB, sC, sa, sb = map(M.to_spec, (A, B, C, ea, eb))
        for pa in range(ea.size):
            for pb in range(eb.size):
                for ax in range(3):
                    g = Gauss1D(M.SF, sa[pa], sA[ax], sb[pb], sB[ax], sC[ax])
                    for k in range(om + 1):
                        for j in range(bm + 1):
                            for i in range(am + 1):
                                M.eq("intermediate/out" + tag((k, j, i, ax, pb, pa)), out[k, j, i, ax, pb, pa], g.G(i, j, k))
