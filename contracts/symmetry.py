"""Contracts for C11: reordering the shells only reorders indices; index symmetries hold also when the
two orientations of a shell pair are computed independently of each other."""
import itertools

import numpy as np

from engine import bind

from .assembly import Blocks, TStub, build_shells
from .common import tag
from .coulomb import boys_stub, two_centres, _real_shell


def _offsets(shells, types):
    sizes = [s.norm_cont.shape[0] * (s.norm_cont.shape[1] if t == "cartesian" else 2 * s.angmom + 1) for s, t in zip(shells, types)]
    offs = [0]
    for z in sizes:
        offs.append(offs[-1] + z)
    return sizes, offs


class AssemblyPermutation:
    """assembling the permuted shell list gives the index-permuted array (all permutations, every
    class, labelled opaque blocks with the relation the class's block routine satisfies)"""

    fp = True  # cross-check: the same contract on the unmodified float64 code at sampled inputs (bounded)
    fp_nsamp = (1, 3)

    def fp_shapes(self, tier):
        sh = self.shapes(tier)
        step = max(1, len(sh) // (6 if tier == "quick" else 24))
        return sh[::step][:(6 if tier == "quick" else 24)]


    function = "Base{One,TwoSymm,FourSymm}.construct_array_mix on permuted shell lists"
    sparse = True

    def shapes(self, tier):
        out = []
        specs = [dict(l=0, M=2, type="cartesian"), dict(l=1, M=1, type="spherical"), dict(l=2, M=1, type="cartesian"), dict(l=1, M=2, type="spherical", conv="perm")]
        for cls in ("one", "two", "two-herm", "four"):
            for n in (2, 3, 4):
                if cls == "four" and n > (2 if tier == "quick" else 3):
                    continue
                if cls != "four" and n == 4 and tier == "quick":
                    continue
                for perm in itertools.permutations(range(n)):
                    if perm == tuple(range(n)):
                        continue
                    out.append(dict(cls=cls, shells=specs[:n] if cls != "four" else [dict(s, l=min(s["l"], 1)) for s in specs[:n]], perm=list(perm)))
        return out

    def run(self, shape, M):
        cls, perm = shape["cls"], shape["perm"]
        shells = build_shells(M, shape["shells"])
        types = [s["type"] for s in shape["shells"]]
        n = len(shells)
        nidx = {"one": 1, "two": 2, "two-herm": 2, "four": 4}[cls]
        rel = {"one": "none", "two": "sym", "two-herm": "herm", "four": "eight"}[cls]
        trailing = [2] if cls in ("one", "two-herm") else []
        blocks = Blocks(M, shells, nidx, trailing, rel)
        T = TStub(M)
        modname = {"one": "gbasis.base_one", "two": "gbasis.base_two_symm", "two-herm": "gbasis.base_two_symm", "four": "gbasis.base_four_symm"}[cls]
        mod = M.mods[modname]
        base = {"one": "BaseOneIndex", "two": "BaseTwoIndexSymmetric", "two-herm": "BaseTwoIndexSymmetric", "four": "BaseFourIndexSymmetric"}[cls]

        class Concrete(getattr(mod, base)):
            def construct_array_contraction(self, *c, **kw):
                return blocks.stub(*c, **kw)

        with bind.patched((mod, "generate_transformation", T)):
            ref = Concrete(shells).construct_array_mix(list(types))
            pshells = [shells[i] for i in perm]
            ptypes = [types[i] for i in perm]
            got = Concrete(pshells).construct_array_mix(list(ptypes))
        sizes, offs = _offsets(shells, types)
        # function index map: position in the permuted basis -> position in the original basis
        fmap = []
        for i in perm:
            fmap += list(range(offs[i], offs[i] + sizes[i]))
        M.true("perm/shape", got.shape == ref.shape, "%s vs %s" % (got.shape, ref.shape))
        nb = len(fmap)
        for idx in np.ndindex(*got.shape):
            src = tuple(fmap[i] for i in idx[:nidx]) + idx[nidx:]
            M.eq("perm/out" + tag(idx), got[idx], ref[src])


class BlockOrientation:
    """B(s2, s1)[m2,c2,m1,c1,..] = B(s1, s2)[m1,c1,m2,c2,..] (real symmetric operators) or its complex
    conjugate (momentum-type operators): two separate runs of the real block routine compared with each other"""

    fp = True  # cross-check: the same contract on the unmodified float64 code at sampled inputs (bounded)
    fp_nsamp = (1, 3)

    def fp_shapes(self, tier):
        sh = self.shapes(tier)
        step = max(1, len(sh) // (6 if tier == "quick" else 24))
        return sh[::step][:(6 if tier == "quick" else 24)]


    function = "construct_array_contraction(s1, s2) vs (s2, s1) of Overlap / Kinetic / Moment / Momentum / AngularMomentum / PointCharge"

    def shapes(self, tier):
        lm = 2 if tier == "quick" else 3
        out = []
        for mod in ("overlap", "kinetic", "moment", "momentum", "angmom", "point_charge"):
            for la in range(lm + 1):
                for lb in range(la + 1):
                    if mod in ("angmom", "point_charge") and la + lb > (3 if tier == "quick" else 4):
                        continue
                    out.append(dict(module=mod, la=la, lb=lb))
        return out

    def run(self, shape, M):
        m = M.mods
        mod, la, lb = shape["module"], shape["la"], shape["lb"]
        if mod == "angmom":
            A, B = M.vec("A", 3), M.vec("B", 3)
            ea, eb = M.vec("a", 1, "pos"), M.vec("b", 1, "pos")
            P = None
        else:
            A, B, ea, eb, P = two_centres(M, 1, 1)
        s1, s2 = _real_shell(M, "p", la, 1, 1, A, ea), _real_shell(M, "q", lb, 1, 1, B, eb)
        herm = mod in ("momentum", "angmom")
        kw = {}
        if mod == "overlap":
            cls = m["gbasis.integrals.overlap"].Overlap
        elif mod == "kinetic":
            cls = m["gbasis.integrals.kinetic_energy"].KineticEnergyIntegral
        elif mod == "moment":
            cls = m["gbasis.integrals.moment"].Moment
            kw = dict(moment_coord=M.array(P - M.vec("X", 3)), moment_orders=np.array([[1, 0, 2], [0, 1, 0]]))
        elif mod == "momentum":
            cls = m["gbasis.integrals.momentum"].MomentumIntegral
        elif mod == "angmom":
            cls = m["gbasis.integrals.angular_momentum"].AngularMomentumIntegral
        else:
            cls = m["gbasis.integrals.point_charge"].PointChargeIntegral
            kw = dict(points_coords=M.array(np.array([P - M.vec("W", 3)], dtype=object)), points_charge=M.vec("q", 1))
        boys = boys_stub(M)
        with bind.patched((m["gbasis.integrals.point_charge"].PointChargeIntegral, "boys_func", staticmethod(boys))):
            b12 = cls.construct_array_contraction(s1, s2, **kw)
            b21 = cls.construct_array_contraction(s2, s1, **kw)
        M.true("orient/shape", b21.shape[:4] == (b12.shape[2], b12.shape[3], b12.shape[0], b12.shape[1]) and b21.shape[4:] == b12.shape[4:], "")
        for idx in np.ndindex(*b12.shape):
            m1, c1, m2, c2 = idx[:4]
            other = b21[(m2, c2, m1, c1) + idx[4:]]
            if herm:
                other = M.F.conj(other) if not M.symbolic else other.conjugate()
            M.eq("orient/%s%s" % (mod, tag(idx)), b12[idx], other)
