"""Contracts on the public dispatch functions (*_integral, evaluate_basis, evaluate_deriv_basis):
with the four assembly methods of the class replaced by their contracts (recorders returning
labelled opaque arrays), the function must

* build the class on exactly the given shells, in the given order,
* select lincomb when a transform is given (forwarding it unchanged together with the list of
  coordinate types reported by the shells), else cartesian / spherical when all shells agree, else mix
  with that list,
* forward every keyword argument unchanged,
* return the method's result (ERI: middle indices exchanged for 'physicist'; nuclear attraction: the sum
  over the point-charge axis).
"""
import itertools

import numpy as np

from engine import bind

from .assembly import build_shells
from .common import tag

ENTRIES = {
    "overlap": dict(mod="gbasis.integrals.overlap", fn="overlap_integral", cls="Overlap", extra={"tol_screen": "scalar"}, ndim=2),
    "kinetic": dict(mod="gbasis.integrals.kinetic_energy", fn="kinetic_energy_integral", cls="KineticEnergyIntegral", extra={}, ndim=2),
    "momentum": dict(mod="gbasis.integrals.momentum", fn="momentum_integral", cls="MomentumIntegral", extra={}, ndim=3),
    "angmom": dict(mod="gbasis.integrals.angular_momentum", fn="angular_momentum_integral", cls="AngularMomentumIntegral", extra={}, ndim=3),
    "moment": dict(mod="gbasis.integrals.moment", fn="moment_integral", cls="Moment", pos=["moment_coord", "moment_orders"], extra={}, ndim=3),
    "point_charge": dict(mod="gbasis.integrals.point_charge", fn="point_charge_integral", cls="PointChargeIntegral",
                         pos=["points_coords", "points_charge"], extra={}, ndim=3),
    "nuclear": dict(mod="gbasis.integrals.nuclear_electron_attraction", fn="nuclear_electron_attraction_integral",
                    cls="PointChargeIntegral", clsmod="gbasis.integrals.point_charge", pos=["points_coords", "points_charge"],
                    extra={}, ndim=3, post="sum2"),
    "eri_phys": dict(mod="gbasis.integrals.electron_repulsion", fn="electron_repulsion_integral", cls="ElectronRepulsionIntegral",
                     extra={"notation": "physicist"}, drop=["notation"], ndim=4, post="phys"),
    "eri_chem": dict(mod="gbasis.integrals.electron_repulsion", fn="electron_repulsion_integral", cls="ElectronRepulsionIntegral",
                     extra={"notation": "chemist"}, drop=["notation"], ndim=4),
    "eri_default": dict(mod="gbasis.integrals.electron_repulsion", fn="electron_repulsion_integral", cls="ElectronRepulsionIntegral",
                        extra={}, ndim=4, post="phys"),
    "eval": dict(mod="gbasis.evals.eval", fn="evaluate_basis", cls="Eval", pos=["points"], extra={}, ndim=2),
    "eval_deriv": dict(mod="gbasis.evals.eval_deriv", fn="evaluate_deriv_basis", cls="EvalDeriv", pos=["points", "orders"],
                       extra={"deriv_type": "direct"}, ndim=2),
    "eval_deriv_default": dict(mod="gbasis.evals.eval_deriv", fn="evaluate_deriv_basis", cls="EvalDeriv", pos=["points", "orders"],
                               extra={}, defaults={"deriv_type": "general"}, ndim=2),
}

PATTERNS = [["cartesian"], ["spherical"], ["cartesian", "cartesian"], ["spherical", "spherical", "spherical"],
            ["cartesian", "spherical"], ["spherical", "cartesian", "cartesian"]]


class Dispatch:
    sparse = True
    function = "public dispatch functions"

    def shapes(self, tier):
        out = []
        for name in ENTRIES:
            for pat in PATTERNS:
                for tr in (False, True):
                    out.append(dict(entry=name, types=pat, transform=tr))
            # a basis is documented as a list OR a tuple of shells
            out.append(dict(entry=name, types=PATTERNS[-1], transform=False, container="tuple"))
            out.append(dict(entry=name, types=PATTERNS[0], transform=True, container="tuple"))
        return out

    def run(self, shape, M):
        e = ENTRIES[shape["entry"]]
        mod = M.mods[e["mod"]]
        cls = getattr(M.mods[e.get("clsmod", e["mod"])], e["cls"])
        types = shape["types"]
        shells = build_shells(M, [dict(l=i % 2, M=1, type=t) for i, t in enumerate(types)])
        calls = []
        ndim = e["ndim"]
        sentinel = M.vec("R", (2,) * ndim, "opq")

        def rec(which):
            def stub(self, *a, **kw):
                calls.append((which, self, a, kw))
                return sentinel

            return stub

        posargs = {k: object() for k in e.get("pos", [])}
        if "moment_coord" in posargs:
            posargs = {"moment_coord": M.vec("C", 3), "moment_orders": np.array([[1, 0, 2]])}
        if "points_coords" in posargs:
            posargs = {"points_coords": M.vec("Rp", (2, 3)), "points_charge": M.vec("q", 2)}
        if "points" in posargs:
            posargs["points"] = M.vec("Rp", (2, 3))
        if "orders" in posargs:
            posargs["orders"] = np.array([1, 0, 2])
        extra = dict(e["extra"])
        if extra.get("tol_screen") == "scalar":
            extra["tol_screen"] = M.scalar(M.pos("tol"))
        U = M.vec("U", (3, 2)) if shape["transform"] else None
        kwargs = dict(extra)
        if U is not None:
            kwargs["transform"] = U
        fn = getattr(mod, e["fn"])
        with bind.patched(*[(cls, "construct_array_" + w, rec(w)) for w in ("cartesian", "spherical", "mix", "lincomb")]):
            got = fn(tuple(shells) if shape.get("container") == "tuple" else list(shells), *posargs.values(), **kwargs)
        M.true("dispatch/one-call", len(calls) == 1, "%d assembly calls" % len(calls))
        if len(calls) != 1:
            return
        which, inst, a, kw = calls[0]
        if U is not None:
            want = "lincomb"
        elif all(t == "cartesian" for t in types):
            want = "cartesian"
        elif all(t == "spherical" for t in types):
            want = "spherical"
        else:
            want = "mix"
        M.true("dispatch/method", which == want, "%s called, %s expected" % (which, want))
        cont = inst.contractions
        M.true("dispatch/basis", len(cont) == len(shells) and all(x is y for x, y in zip(cont, shells)), "class built on the given shells in order")
        if want == "lincomb":
            M.true("dispatch/args", len(a) == 2 and a[0] is U and list(a[1]) == list(types), "transform and coordinate types forwarded")
        elif want == "mix":
            M.true("dispatch/args", len(a) == 1 and list(a[0]) == list(types), "coordinate types forwarded")
        else:
            M.true("dispatch/args", len(a) == 0, "no positional arguments")
        exp_kw = dict(posargs)
        exp_kw.update({k: v for k, v in extra.items() if k not in e.get("drop", [])})
        exp_kw.update(e.get("defaults", {}))
        same = set(kw) == set(exp_kw) and all(kw[k] is exp_kw[k] or (isinstance(exp_kw[k], str) and kw[k] == exp_kw[k]) for k in exp_kw)
        M.true("dispatch/kwargs", same, "keywords %s expected %s" % (sorted(kw), sorted(exp_kw)))
        post = e.get("post")
        if post is None:
            M.true("dispatch/result", got is sentinel, "method result returned unchanged")
        elif post == "phys":
            M.true("dispatch/result-shape", tuple(got.shape) == tuple(sentinel.shape), str(got.shape))
            for idx in np.ndindex(*sentinel.shape):
                i, j, k, l = idx
                M.eq("dispatch/result" + tag(idx), got[i, j, k, l], sentinel[i, k, j, l])
        elif post == "sum2":
            M.true("dispatch/result-shape", tuple(got.shape) == (2, 2), str(got.shape))
            for idx in np.ndindex(2, 2):
                M.eq("dispatch/result" + tag(idx), got[idx], sentinel[idx][0] + sentinel[idx][1])


class DispatchAsymm:
    """overlap_integral_asymmetric(basis_one, basis_two, transform_one, transform_two)"""

    sparse = True
    function = "gbasis.integrals.overlap_asymm.overlap_integral_asymmetric"

    def shapes(self, tier):
        return [dict(ta=a, tb=b, tr=t) for a, b in ((["cartesian"], ["spherical", "cartesian"]), (["spherical", "spherical"], ["spherical"]))
                for t in ([False, False], [True, False], [False, True], [True, True])]

    def run(self, shape, M):
        mod = M.mods["gbasis.integrals.overlap_asymm"]
        ov = M.mods["gbasis.integrals.overlap"]
        sa = build_shells(M, [dict(l=0, M=1, type=t) for t in shape["ta"]], "a")
        sb = build_shells(M, [dict(l=1, M=1, type=t) for t in shape["tb"]], "b")
        calls = []
        sentinel = M.vec("R", (2, 2), "opq")

        def stub(self, *a, **kw):
            calls.append((self, a, kw))
            return sentinel

        U1 = M.vec("U", (2, 2)) if shape["tr"][0] else None
        U2 = M.vec("V", (2, 2)) if shape["tr"][1] else None
        with bind.patched((mod.OverlapAsymmetric, "construct_array_lincomb", stub)):
            as_ = tuple if shape["tr"] == [True, False] else list  # a basis is documented as a list or a tuple
            got = mod.overlap_integral_asymmetric(as_(sa), list(sb), transform_one=U1, transform_two=U2)
        M.true("dispatch/one-call", len(calls) == 1, "")
        inst, a, kw = calls[0]
        M.true("dispatch/basis", all(x is y for x, y in zip(inst.contractions_one, sa)) and all(x is y for x, y in zip(inst.contractions_two, sb))
               and len(inst.contractions_one) == len(sa) and len(inst.contractions_two) == len(sb), "both bases forwarded in order")
        M.true("dispatch/args", len(a) == 4 and a[0] is U1 and a[1] is U2 and list(a[2]) == shape["ta"] and list(a[3]) == shape["tb"] and not kw,
               "transforms and coordinate types forwarded")
        M.true("dispatch/result", got is sentinel, "")
        # the asymmetric class uses the very block routine of Overlap
        f = mod.OverlapAsymmetric.__dict__["construct_array_contraction"]
        f = f.__func__ if isinstance(f, staticmethod) else f
        g = ov.Overlap.__dict__["construct_array_contraction"]
        g = g.__func__ if isinstance(g, staticmethod) else g
        M.true("dispatch/same-block-routine", f is g, "OverlapAsymmetric.construct_array_contraction is Overlap's")



class ConventionInline:
    """everything real (also generate_transformation): two shells with identical data, one of them of a shell
    type that reports its Cartesian and pure components in another order / sign convention, used TOGETHER in
    one basis: the second shell's functions are the first shell's, permuted and signed accordingly -- for the
    evaluation (one-index) and the overlap (two-index) routes, Cartesian, spherical and mixed"""

    function = "component conventions taken from the shell object, across shells of one basis (inline)"

    def shapes(self, tier):
        return [dict(l=l, types=t, what=w) for l in ((1, 2) if tier == "quick" else (1, 2, 3))
                for t in (["spherical", "spherical"], ["cartesian", "spherical"], ["cartesian", "cartesian"]) for w in ("both", "cart-only", "labels-only")]

    def run(self, shape, M):
        from .common import cart_components, make_shell
        from .spherical import default_sph

        cmod = M.mods["gbasis.contractions"]
        l = shape["l"]
        cart = cart_components(l)
        what = shape.get("what", "both")
        cperm = list(range(len(cart)))[::-1] if what != "labels-only" else list(range(len(cart)))
        labs = default_sph(l)
        lperm = (list(range(len(labs)))[1:] + [0]) if what != "cart-only" else list(range(len(labs)))
        signs = [(-1) ** i for i in range(len(labs))] if what != "cart-only" else [1] * len(labs)

        class Conv(cmod.GeneralizedContractionShell):
            @property
            def angmom_components_cart(self):
                return np.array([cart[i] for i in cperm])

            @property
            def angmom_components_sph(self):
                return tuple(("-" if signs[i] < 0 else "") + labs[lperm[i]] for i in range(len(labs)))

        A, e, d = M.vec("A", 3), M.vec("a", 1, "pos"), M.vec("d", (1, 1), "pos")
        s0 = make_shell(M, l, A, d, e, coord_type=shape["types"][0])
        s1 = make_shell(M, l, A, d, e, coord_type=shape["types"][1], cls=Conv)
        pts = M.array(np.array([A + M.vec("T", 3)], dtype=object))
        ev = M.mods["gbasis.evals.eval"].evaluate_basis
        both = ev([s0, s1], pts)
        ref0 = ev([make_shell(M, l, A, d, e, coord_type=shape["types"][1])], pts)  # default conventions, type of the second shell
        n0 = s0.num_cart if shape["types"][0] == "cartesian" else s0.num_sph
        for i in range(both.shape[0] - n0):
            if shape["types"][1] == "cartesian":
                exp = ref0[cperm[i], 0]
            else:
                exp = ref0[lperm[i], 0] * signs[i]
            M.eq("conv_inline/eval" + tag((i,)), both[n0 + i, 0], exp)
        S = M.mods["gbasis.integrals.overlap"].overlap_integral([s0, s1])
        Sref = M.mods["gbasis.integrals.overlap"].overlap_integral([s0, make_shell(M, l, A, d, e, coord_type=shape["types"][1])])
        for i in range(n0):
            for j in range(S.shape[0] - n0):
                if shape["types"][1] == "cartesian":
                    exp = Sref[i, n0 + cperm[j]]
                else:
                    exp = Sref[i, n0 + lperm[j]] * signs[j]
                M.eq("conv_inline/overlap" + tag((i, j)), S[i, n0 + j], exp)
