"""Contracts for C03 / C04: the Coulomb kernels (_one_elec_int, _two_elec_int) for ANY Boys function
satisfying S6, the block routines built on them, the 8-fold / 2-fold block symmetries."""
import itertools

import numpy as np

from engine import bind
from specs import basisfn, coulomb

from .common import Frame, Seen, cart_components, make_shell, tag
from .overlap import spec_of_shell


def boys_stub(M):
    """symbolic Boys function: atoms F_m(T); natively the real implementation is used"""
    if not M.symbolic:
        return M.mods["gbasis.integrals.point_charge"].PointChargeIntegral.boys_func
    from engine import sym as S

    def boys(orders, T):
        o, t = np.broadcast_arrays(np.asarray(orders), np.asarray(T, dtype=object))
        out = np.empty(o.shape, dtype=object)
        of = out.reshape(-1)
        for i, (m, x) in enumerate(zip(o.reshape(-1), t.reshape(-1))):
            of[i] = S.boys_atom(int(m), x)
        return out.view(S.SymArray)

    return boys


def two_centres(M, Ka, Kb, pfx=""):
    """K=1: (P, AB, a, b) with A = P + b AB/(a+b), B = P - a AB/(a+b) (onto; inverse AB = A-B,
    P = (aA+bB)/(a+b)).  K>1: B, AB."""
    if Ka == 1 and Kb == 1:
        P, AB = M.vec(pfx + "P", 3), M.vec(pfx + "AB", 3)
        a, b = M.pos(pfx + "a_0"), M.pos(pfx + "b_0")
        A = M.array(P + AB * (b / (a + b)))
        B = M.array(P - AB * (a / (a + b)))
        return A, B, M.array([a]), M.array([b]), P
    B = M.vec(pfx + "B", 3)
    A = M.array(B + M.vec(pfx + "AB", 3))
    return A, B, M.vec(pfx + "a", Ka, "pos"), M.vec(pfx + "b", Kb, "pos"), None


class OneElecKernel:
    fp = True  # also sampled on the unmodified float64 code (bounded stand-in for rounding)
    """_compute_one_elec_integrals[ax,ay,az,bx,by,bz,n,ma,mb] for ax+ay+az = l_a, bx+by+bz = l_b equals
    sum_{pa,pb} d_a d_b N_a N_b (a | 1/|r - C_n| | b) defined by differentiation of the Boys base integral"""

    function = "gbasis.integrals._one_elec_int._compute_one_elec_integrals"

    def shapes(self, tier):
        out = []
        top = 4 if tier == "quick" else 6  # (2,2) is the first pair in which both horizontal-recursion indices exceed 1
        for la in range(0, 6):
            for lb in range(0, la + 1):
                if la + lb <= top:
                    out.append(dict(la=la, lb=lb, K=[1, 1], M=[1, 1], N=1))
        out += [dict(la=1, lb=0, K=[2, 1], M=[2, 1], N=2), dict(la=1, lb=1, K=[1, 2], M=[1, 2], N=1), dict(la=0, lb=0, K=[2, 2], M=[2, 2], N=1)]
        if tier == "quick":
            out += [dict(la=5, lb=0, K=[1, 1], M=[1, 1], N=1), dict(la=5, lb=1, K=[1, 1], M=[1, 1], N=1)]  # the top of the property's range (h shells)
        if tier == "thorough":
            out += [dict(la=2, lb=1, K=[2, 2], M=[1, 2], N=1), dict(la=2, lb=0, K=[1, 1], M=[1, 1], N=2)]
        return out

    def run(self, shape, M):
        mod = M.mods["gbasis.integrals._one_elec_int"]
        la, lb, N = shape["la"], shape["lb"], shape["N"]
        (Ka, Kb), (Ma, Mb) = shape["K"], shape["M"]
        A, B, ea, eb, P = two_centres(M, Ka, Kb)
        if P is not None:
            C = M.array(np.array([P - M.vec("W%d" % n, 3) for n in range(N)], dtype=object))
        else:
            C = M.array(np.array([B - M.vec("W%d" % n, 3) for n in range(N)], dtype=object))
        da, db = M.vec("da", (Ka, Ma)), M.vec("db", (Kb, Mb))
        fr = Frame(A=A, B=B, C=C, ea=ea, eb=eb, da=da, db=db)
        out = mod._compute_one_elec_integrals(C, boys_stub(M), A, la, ea, da, B, lb, eb, db)
        fr.check(M, "one_elec", out)
        out = M.shaped("one_elec/shape", out, (la + 1,) * 3 + (lb + 1,) * 3 + (N, Ma, Mb))
        sA, sB, sC, sea, seb, sda, sdb = map(M.to_spec, (A, B, C, ea, eb, da, db))
        SF = M.SF
        ca, cb = cart_components(la), cart_components(lb)
        for n in range(N):
            prim = {}
            for pa in range(Ka):
                for pb in range(Kb):
                    f = coulomb.one_electron(SF, sea[pa], seb[pb], list(sA), list(sB), list(sC[n]))
                    for ia in ca:
                        for ib in cb:
                            prim[pa, pb, ia, ib] = f(ia, ib) * basisfn.prim_norm(SF, sea[pa], ia) * basisfn.prim_norm(SF, seb[pb], ib)
            for ia in ca:
                for ib in cb:
                    for ma in range(Ma):
                        for mb in range(Mb):
                            tot = SF.num(0)
                            for pa in range(Ka):
                                for pb in range(Kb):
                                    tot = tot + prim[pa, pb, ia, ib] * sda[pa, ma] * sdb[pb, mb]
                            idx = ia + ib + (n, ma, mb)
                            M.eq("one_elec/out" + tag(idx), out[idx], tot)


class PointChargeBlock:
    """PointChargeIntegral.construct_array_contraction with the kernel replaced by its contract (an
    opaque cube K[ax,ay,az,bx,by,bz,n,ma,mb] requested for (l_max side first)): validation, the
    l_a >= l_b swap AND un-swap, component selection in the shells' own order, factor -q_n per charge,
    axes (M1, L1, M2, L2, N); the Boys function handed over is the class's."""

    fp = True  # cross-check: the same contract on the unmodified float64 code at sampled inputs (bounded)
    fp_nsamp = (1, 3)

    def fp_shapes(self, tier):
        sh = self.shapes(tier)
        step = max(1, len(sh) // (6 if tier == "quick" else 24))
        return sh[::step][:(6 if tier == "quick" else 24)]


    function = "gbasis.integrals.point_charge.PointChargeIntegral.construct_array_contraction"
    sparse = True

    def shapes(self, tier):
        lm = 3 if tier == "quick" else 5
        out = [dict(la=la, lb=lb, M=[1 + (la % 2), 1 + (lb % 3 == 0)], N=1 + (la + lb) % 2) for la in range(lm + 1) for lb in range(lm + 1)]
        out.append(dict(la=1, lb=2, M=[2, 1], N=2, conv="perm"))
        out.append(dict(la=1, lb=0, M=[1, 1], N=1, what="rejects"))
        return out

    def run(self, shape, M):
        pc = M.mods["gbasis.integrals.point_charge"]
        from .assembly import build_shells

        la, lb, N = shape["la"], shape["lb"], shape["N"]
        conv = shape.get("conv")
        s1, s2 = build_shells(M, [dict(l=la, M=shape["M"][0], conv=conv), dict(l=lb, M=shape["M"][1], conv=conv)])
        pts, q = M.vec("R", (N, 3)), M.vec("q", N)
        f = pc.PointChargeIntegral.construct_array_contraction
        if shape.get("what") == "rejects":
            M.raises("pc_block/rejects/shell", lambda: f(None, s2, pts, q), TypeError)
            M.raises("pc_block/rejects/points-1d", lambda: f(s1, s2, pts[0], q), TypeError)
            M.raises("pc_block/rejects/points-cols", lambda: f(s1, s2, pts[:, :2], q), TypeError)
            M.raises("pc_block/rejects/charges-2d", lambda: f(s1, s2, pts, q[:, None]), TypeError)
            M.raises("pc_block/rejects/count", lambda: f(s1, s2, pts, M.vec("q2", N + 1)), ValueError)
            M.raises("pc_block/rejects/points-dtype", lambda: f(s1, s2, np.array([["a", "b", "c"]]), q), TypeError)
            return
        seen = Seen("pc_block/pre@kernel")

        def kernel(coords, boys, ca, anga, ea, da, cb, angb, eb, db):
            seen["args"] = (coords, boys, ca, anga, ea, da, cb, angb, eb, db)
            seen["cube"] = M.vec("K", (anga + 1,) * 3 + (angb + 1,) * 3 + (coords.shape[0], da.shape[1], db.shape[1]), "opq")
            return seen["cube"].copy()

        fr = Frame(pts=pts, q=q, e1=s1.exps, e2=s2.exps, d1=s1.coeffs, d2=s2.coeffs)
        with bind.patched((pc, "_compute_one_elec_integrals", kernel)):
            out = f(s1, s2, pts, q)
        fr.check(M, "pc_block", out)
        a = seen["args"]
        hi, lo = (s1, s2) if la >= lb else (s2, s1)
        M.true("pc_block/pre@kernel/order", a[3] >= a[7], "kernel precondition l_first >= l_second (%d, %d)" % (a[3], a[7]))
        M.true("pc_block/pre@kernel/args", a[0] is pts and a[2] is hi.coord and a[3] == hi.angmom and a[4] is hi.exps and a[5] is hi.coeffs
               and a[6] is lo.coord and a[7] == lo.angmom and a[8] is lo.exps and a[9] is lo.coeffs, "each shell's centre, l, exponents, coefficients stay together")
        bf = pc.PointChargeIntegral.__dict__["boys_func"]
        M.true("pc_block/pre@kernel/boys", a[1] is pc.PointChargeIntegral.boys_func or getattr(a[1], "__func__", a[1]) is getattr(bf, "__func__", bf), "the class's Boys function is handed to the kernel")
        c1 = [tuple(int(x) for x in r) for r in s1.angmom_components_cart]
        c2 = [tuple(int(x) for x in r) for r in s2.angmom_components_cart]
        out = M.shaped("pc_block/shape", out, (shape["M"][0], len(c1), shape["M"][1], len(c2), N))
        cube, sq = M.to_spec(seen["cube"]), M.to_spec(q)
        for m1 in range(shape["M"][0]):
            for i1, k1 in enumerate(c1):
                for m2 in range(shape["M"][1]):
                    for i2, k2 in enumerate(c2):
                        for n in range(N):
                            src = cube[k1 + k2 + (n, m1, m2)] if la >= lb else cube[k2 + k1 + (n, m2, m1)]
                            M.eq("pc_block/out" + tag((m1, i1, m2, i2, n)), out[m1, i1, m2, i2, n], -sq[n] * src)


def _real_shell(M, pfx, l, K, Mn, coord, exps, conv=None):
    L = (l + 1) * (l + 2) // 2
    return make_shell(M, l, coord, M.vec(pfx + "d", (K, Mn)), exps, norm_cont=M.vec(pfx + "n", (Mn, L), "pos"))


class PointChargeInline:
    fp = True  # also sampled on the unmodified float64 code (bounded stand-in for rounding)

    def fp_shapes(self, tier):
        # besides the ordinary samples: everything 50-80 bohr from the origin, a tight primitive pair, the charge 1e-4..2e-3 bohr
        # from the product centre (translation invariance of the Boys argument p |PC|^2 in floating point)
        return self.shapes(tier) + [dict(la=0, lb=0, profile="shifted-tight"), dict(la=1, lb=0, profile="shifted-tight"), dict(la=1, lb=1, profile="shifted-tight")]

    def fp_domain_for(self, shape):
        if shape.get("profile") == "shifted-tight":
            return {"pos": (5e3, 1e5), "zero_prob": 0.0, "real": 1.0,
                    "real_by_prefix": {"P_": (50.0, 80.0, True), "AB": (0.0, 2e-3, True), "W": (1e-4, 2e-3, True), "q": (0.5, 2.0, True)}}
        return {}
    """end to end on real shells, kernel inlined, in BOTH orientations (l_a >= l_b and l_a < l_b):
    out[m1,c1,m2,c2,n] = -q_n <phi~1| 1/|r-R_n| |phi~2>; and the two orientations are transposes"""

    function = "gbasis.integrals.point_charge.PointChargeIntegral.construct_array_contraction (inline)"

    def shapes(self, tier):
        lm = 2 if tier == "quick" else 3
        out = [dict(la=la, lb=lb) for la in range(lm + 1) for lb in range(lm + 1) if la + lb <= (3 if tier == "quick" else 5)]
        # several primitives per shell (what a block-level screen or pruning step would look at)
        out += [dict(la=0, lb=0, K=[2, 2]), dict(la=1, lb=0, K=[1, 2])]
        out += [dict(la=5, lb=0), dict(la=0, lb=5)]  # the top of the property's range, on either side (exercises the swap)
        if tier == "thorough":
            out += [dict(la=0, lb=1, K=[3, 1]), dict(la=1, lb=1, K=[2, 2])]
        return out

    def run(self, shape, M):
        pc = M.mods["gbasis.integrals.point_charge"]
        la, lb = shape["la"], shape["lb"]
        Ka, Kb = shape.get("K", [1, 1])
        A, B, ea, eb, P = two_centres(M, Ka, Kb)
        C = M.array(np.array([P - M.vec("W", 3)], dtype=object)) if P is not None else M.vec("R", (1, 3))
        q = M.vec("q", 1)
        s1, s2 = _real_shell(M, "p", la, Ka, 1, A, ea), _real_shell(M, "q", lb, Kb, 1, B, eb)
        boys = boys_stub(M)
        with bind.patched((pc.PointChargeIntegral, "boys_func", staticmethod(boys))):
            out12 = pc.PointChargeIntegral.construct_array_contraction(s1, s2, C, q)
            out21 = pc.PointChargeIntegral.construct_array_contraction(s2, s1, C, q)
        sa, sb = spec_of_shell(M, s1), spec_of_shell(M, s2)
        SF = M.SF
        sC, sq = M.to_spec(C), M.to_spec(q)
        fs = {(pa, pb): coulomb.one_electron(SF, sa.exps[pa], sb.exps[pb], list(sa.coord), list(sb.coord), list(sC[0])) for pa in range(Ka) for pb in range(Kb)}
        spec = basisfn.contracted_block(SF, sa, sb, lambda pa, pb, ca, cb: fs[pa, pb](ca, cb))
        for (m1, i1, m2, i2), v in spec.items():
            M.eq("pc_inline/out" + tag((m1, i1, m2, i2, 0)), out12[m1, i1, m2, i2, 0], -sq[0] * v)
            M.eq("pc_inline/orientation" + tag((m1, i1, m2, i2, 0)), out21[m2, i2, m1, i1, 0], out12[m1, i1, m2, i2, 0])


def four_centres(M, K):
    """K = 1 on every shell: (P, AB, CD, PQ, a, b, c, d) with
         A = P + b AB/(a+b), B = P - a AB/(a+b), Q = P - PQ, C = Q + d CD/(c+d), D = Q - c CD/(c+d)
    (onto: AB = A-B, CD = C-D, P, Q the weighted centres).  Otherwise D, AD, BD, CD offsets."""
    if all(k == 1 for k in K):
        # centres through P, PA, Q, QC:  A = P - PA, B = P + (a/b) PA, C = Q - QC, D = Q + (c/d) QC, Q = P - PQ
        # (onto: PA = P - A with P the weighted centre); zeta := a+b, eta := c+d, sigma := zeta+eta are
        # recognised when the code forms these sums
        P, PA, QC, PQ = M.vec("P", 3), M.vec("PA", 3), M.vec("QC", 3), M.vec("PQ", 3)
        a, b, c, d = M.pos("a_0"), M.pos("b_0"), M.pos("c_0"), M.pos("d_0")
        M.folded("zeta", a + b)
        M.folded("eta", c + d)
        M.folded("sigma", a + b + c + d)
        A = M.array(P - PA)
        B = M.array(P + PA * (a / b))
        Q = P - PQ
        C = M.array(Q - QC)
        D = M.array(Q + QC * (c / d))
        return [A, B, C, D], [M.array([a]), M.array([b]), M.array([c]), M.array([d])]
    D = M.vec("D", 3)
    cs = [M.array(D + M.vec(n, 3)) for n in ("AD", "BD", "CD")] + [D]
    es = [M.vec(n, k, "pos") for n, k in zip("abcd", K)]
    return cs, es


class TwoElecKernel:
    fp = True  # also sampled on the unmodified float64 code (bounded stand-in for rounding)
    """_compute_two_elec_integrals / _angmom_zero [c_a,c_b,c_c,c_d,m_a,m_b,m_c,m_d] =
    sum_prims d d d d N N N N (ab|cd) with (ab|cd) defined by differentiation of the all-s integral;
    any Boys function satisfying S6; component lists in the order given"""

    function = "gbasis.integrals._two_elec_int._compute_two_elec_integrals(_angmom_zero)"
    fp_tol = 1e-6  # of the Schwarz scale sqrt((ab|ab)(cd|cd)) of the element, as in the property statement

    def fp_domain_for(self, shape):
        # the property's stated domain: exponents 0.1..10, 0.2..5 when an f shell is present; centres of order 1
        rng = (0.2, 5.0) if max(shape["l"]) >= 3 else (0.1, 10.0)
        return {"pos": rng, "real": 1.5, "by_prefix": {"d": (0.2, 2.0)}}

    def fp_shapes(self, tier):
        # the 50-digit oracle is expensive for high l: sample the float code up to total l = 4
        return [s for s in self.shapes(tier) if "part" not in s and sum(s["l"]) <= 4]

    def shapes(self, tier):
        out = []
        top = 3 if tier == "quick" else 8
        for ls in itertools.product(range(4), repeat=4):
            if sum(ls) <= top:
                # large quartets are split over workers: part [k, n] checks the outputs with index hash = k mod n
                nparts = 1 if sum(ls) <= 5 else (4 if sum(ls) == 6 else (8 if sum(ls) == 7 else 16))
                for k in range(nparts):
                    sh = dict(l=list(ls), K=[1, 1, 1, 1], M=[1, 1, 1, 1])
                    if nparts > 1:
                        sh["part"] = [k, nparts]
                    out.append(sh)
        out += [dict(l=[0, 0, 0, 0], K=[2, 1, 2, 1], M=[2, 1, 1, 2]), dict(l=[0, 0, 0, 0], K=[1, 2, 1, 1], M=[1, 2, 3, 1]),
                dict(l=[0, 0, 0, 0], K=[1, 1, 1, 1], M=[2, 2, 2, 2]), dict(l=[0, 1, 0, 0], K=[1, 1, 1, 1], M=[1, 3, 2, 1]),
                dict(l=[1, 0, 0, 0], K=[1, 2, 1, 1], M=[1, 2, 1, 1]),
                dict(l=[0, 1, 1, 0], K=[1, 1, 1, 2], M=[1, 1, 2, 1], comps="reversed")]
        if tier == "thorough":
            out += [dict(l=[1, 1, 0, 1], K=[2, 1, 1, 2], M=[2, 1, 2, 1]), dict(l=[2, 0, 1, 0], K=[1, 2, 2, 1], M=[1, 1, 1, 2], comps="reversed")]
        return out

    def run(self, shape, M):
        mod = M.mods["gbasis.integrals._two_elec_int"]
        ls, K, Mn = shape["l"], shape["K"], shape["M"]
        cs, es = four_centres(M, K)
        ds = [M.vec("d%s" % n, (k, m)) for n, k, m in zip("abcd", K, Mn)]
        comps = [cart_components(l) for l in ls]
        if shape.get("comps") == "reversed":
            comps = [c[::-1] for c in comps]
        boys = boys_stub(M)
        fr = Frame(**{"c%d" % i: c for i, c in enumerate(cs)}, **{"e%d" % i: e for i, e in enumerate(es)}, **{"d%d" % i: d for i, d in enumerate(ds)})
        if sum(ls) == 0 and not shape.get("general"):
            out = mod._compute_two_elec_integrals_angmom_zero(boys, cs[0], es[0], ds[0], cs[1], es[1], ds[1], cs[2], es[2], ds[2], cs[3], es[3], ds[3])
            name = "two_elec_s"
        else:
            args = []
            for i in range(4):
                args += [cs[i], ls[i], np.array(comps[i]), es[i], ds[i]]
            out = mod._compute_two_elec_integrals(boys, *args)
            name = "two_elec"
        fr.check(M, name, out)
        M.true(name + "/shape", tuple(out.shape) == tuple(len(c) for c in comps) + tuple(Mn), str(out.shape))
        scs, ses, sds = [M.to_spec(c) for c in cs], [M.to_spec(e) for e in es], [M.to_spec(d) for d in ds]
        SF = M.SF
        prim = {}
        for ps in itertools.product(*[range(k) for k in K]):
            f = coulomb.two_electron(SF, *[ses[i][ps[i]] for i in range(4)], *[list(c) for c in scs])
            norms = [{c: basisfn.prim_norm(SF, ses[i][ps[i]], c) for c in comps[i]} for i in range(4)]
            norms_of = norms
            for n_, idx in enumerate(itertools.product(*[range(len(c)) for c in comps])):
                if shape.get("part") and n_ % shape["part"][1] != shape["part"][0]:
                    continue
                cc = [comps[i][idx[i]] for i in range(4)]
                prim[ps, idx] = f(*cc) * norms[0][cc[0]] * norms[1][cc[1]] * norms[2][cc[2]] * norms[3][cc[3]]
        part = shape.get("part")
        for n_, idx in enumerate(itertools.product(*[range(len(c)) for c in comps])):
            if part and n_ % part[1] != part[0]:
                continue
            for ms in itertools.product(*[range(m) for m in Mn]):
                tot = SF.num(0)
                for ps in itertools.product(*[range(k) for k in K]):
                    t = prim[ps, idx]
                    for i in range(4):
                        t = t * sds[i][ps[i], ms[i]]
                    tot = tot + t
                sc = None
                if not M.symbolic and all(k == 1 for k in K):
                    # Schwarz scale of this element: sqrt((ab|ab)(cd|cd)) with the same normalisation and coefficients
                    cc = [comps[i][idx[i]] for i in range(4)]
                    if "fab" not in prim:
                        prim["fab"] = coulomb.two_electron(SF, ses[0][0], ses[1][0], ses[0][0], ses[1][0], list(scs[0]), list(scs[1]), list(scs[0]), list(scs[1]))
                        prim["fcd"] = coulomb.two_electron(SF, ses[2][0], ses[3][0], ses[2][0], ses[3][0], list(scs[2]), list(scs[3]), list(scs[2]), list(scs[3]))
                    fab, fcd = prim["fab"], prim["fcd"]
                    nab = (norms_of[0][cc[0]] * norms_of[1][cc[1]] * sds[0][0, ms[0]] * sds[1][0, ms[1]]) ** 2
                    ncd = (norms_of[2][cc[2]] * norms_of[3][cc[3]] * sds[2][0, ms[2]] * sds[3][0, ms[3]]) ** 2
                    sc = SF.sqrt(abs(fab(cc[0], cc[1], cc[0], cc[1]) * nab * fcd(cc[2], cc[3], cc[2], cc[3]) * ncd))
                M.eq(name + "/out" + tag(idx + ms), out[idx + ms], tot, scale=sc)


class ERIBlock:
    """ElectronRepulsionIntegral.construct_array_contraction with both kernels replaced by their
    contracts: all-s quartets go to the closed form, everything else to the general kernel; each shell's
    centre, l, components, exponents, coefficients stay together; the pairs are passed as (1,2|3,4) or, swapped as
    wholes, as (3,4|1,2) with the result transposed back; the class's Boys function is handed over;
    out[m1,c1,m2,c2,m3,c3,m4,c4] = K[c1,c2,c3,c4,m1,m2,m3,m4] of the (possibly swapped) kernel call"""

    fp = True  # cross-check: the same contract on the unmodified float64 code at sampled inputs (bounded)
    fp_nsamp = (1, 3)

    def fp_shapes(self, tier):
        sh = self.shapes(tier)
        step = max(1, len(sh) // (6 if tier == "quick" else 24))
        return sh[::step][:(6 if tier == "quick" else 24)]


    function = "gbasis.integrals.electron_repulsion.ElectronRepulsionIntegral.construct_array_contraction"
    sparse = True

    def shapes(self, tier):
        out = [dict(l=[0, 0, 0, 0], M=[2, 1, 1, 3]), dict(l=[1, 0, 0, 0], M=[1, 2, 1, 1]), dict(l=[0, 0, 0, 1], M=[1, 1, 2, 1]),
               dict(l=[1, 2, 0, 1], M=[1, 1, 2, 1], conv="perm"), dict(l=[0, 0, 0, 0], M=[1, 1, 1, 1], what="rejects")]
        if tier == "thorough":
            out += [dict(l=[2, 1, 3, 0], M=[1, 2, 1, 1]), dict(l=[0, 3, 0, 2], M=[1, 1, 1, 2], conv="perm")]
        return out

    def run(self, shape, M):
        er = M.mods["gbasis.integrals.electron_repulsion"]
        from .assembly import build_shells

        ls, Mn = shape["l"], shape["M"]
        shells = build_shells(M, [dict(l=l, M=m, conv=shape.get("conv")) for l, m in zip(ls, Mn)])
        f = er.ElectronRepulsionIntegral.construct_array_contraction
        if shape.get("what") == "rejects":
            for i in range(4):
                args = list(shells)
                args[i] = None
                M.raises("eri_block/rejects/shell%d" % (i + 1), lambda a=args: f(*a), TypeError)
            return
        seen = Seen("eri_block/pre@kernel")

        def zero_kernel(boys, *a):
            seen["zero"] = (boys, a)
            seen["cube"] = M.vec("K", (1, 1, 1, 1) + tuple(x.shape[1] for x in a[2::3]), "opq")
            return seen["cube"].copy()

        def gen_kernel(boys, *a):
            seen["gen"] = (boys, a)
            seen["cube"] = M.vec("K", tuple(len(c) for c in a[2::5]) + tuple(x.shape[1] for x in a[4::5]), "opq")
            return seen["cube"].copy()

        fr = Frame(**{"e%d" % i: s.exps for i, s in enumerate(shells)}, **{"d%d" % i: s.coeffs for i, s in enumerate(shells)})
        with bind.patched((er, "_compute_two_elec_integrals_angmom_zero", zero_kernel), (er, "_compute_two_elec_integrals", gen_kernel)):
            out = f(*shells)
        fr.check(M, "eri_block", out)
        alls = all(l == 0 for l in ls)
        M.true("eri_block/kernel-choice", ("zero" in seen) == alls and ("gen" in seen) == (not alls), "closed form exactly for all-s quartets")
        boys, a = seen["zero"] if alls else seen["gen"]
        per = 3 if alls else 5
        # the kernel may be asked for (cd|ab) instead of (ab|cd) (the pairs as wholes; equal by the symmetry proved
        # in ERISymmetry / the specification) provided the result is transposed back
        order = [0, 1, 2, 3] if a[0] is shells[0].coord else ([2, 3, 0, 1] if a[0] is shells[2].coord else None)
        if order is None:
            M.true("eri_block/pre@kernel/pair-order", False, "first kernel argument is the centre of neither shell 1 nor shell 3")
            return
        M.true("eri_block/pre@kernel/pair-order", order in ([0, 1, 2, 3], [2, 3, 0, 1]), "shells passed as (1,2,3,4) or (3,4,1,2): %s" % order)
        kshells = [shells[i] for i in order]
        ok = True
        for i, sh in enumerate(kshells):
            g = a[per * i:per * (i + 1)]
            if alls:
                ok &= g[0] is sh.coord and g[1] is sh.exps and g[2] is sh.coeffs
            else:
                ok &= g[0] is sh.coord and g[1] == sh.angmom and np.array_equal(g[2], sh.angmom_components_cart) and g[3] is sh.exps and g[4] is sh.coeffs
        M.true("eri_block/pre@kernel/args", bool(ok), "each shell's centre, l, components, exponents, coefficients stay together, pairs in order %s" % order)
        bf = er.ElectronRepulsionIntegral.__dict__.get("boys_func", None)
        M.true("eri_block/pre@kernel/boys", boys is er.ElectronRepulsionIntegral.boys_func or getattr(boys, "__func__", boys) is getattr(bf, "__func__", bf),
               "the class's Boys function is handed to the kernel")
        Ls = [s.norm_cont.shape[1] for s in shells]
        want = (Mn[0], Ls[0], Mn[1], Ls[1], Mn[2], Ls[2], Mn[3], Ls[3])
        M.true("eri_block/shape", tuple(out.shape) == want, "%s, expected %s" % (out.shape, want))
        if tuple(out.shape) != want:
            return
        cube = M.to_spec(seen["cube"])
        for idx in np.ndindex(*want):
            mm = [idx[0], idx[2], idx[4], idx[6]]
            cc = [idx[1], idx[3], idx[5], idx[7]]
            kc = [cc[i] for i in order]
            km = [mm[i] for i in order]
            M.eq("eri_block/out" + tag(idx), out[idx], cube[tuple(kc) + tuple(km)])
        # the Boys function of the ERI class is the point-charge one (so that C03's bounded check covers it)
        pc = M.mods["gbasis.integrals.point_charge"]
        b1 = er.ElectronRepulsionIntegral.__dict__.get("boys_func")
        b2 = pc.PointChargeIntegral.__dict__.get("boys_func")
        M.true("eri_block/boys-is-point-charge-boys", getattr(b1, "__func__", b1) is getattr(b2, "__func__", b2) or b1 is b2, "")


class ERISymmetry:
    """the block routine computed independently in its eight orientations: (ab|cd) = (ba|cd) = (ab|dc) =
    (cd|ab) = ... on the real kernels (bra/ket are treated asymmetrically by the recursion)"""

    fp = True  # cross-check: the same contract on the unmodified float64 code at sampled inputs (bounded)
    fp_nsamp = (1, 3)

    def fp_shapes(self, tier):
        sh = self.shapes(tier)
        step = max(1, len(sh) // (6 if tier == "quick" else 24))
        return sh[::step][:(6 if tier == "quick" else 24)]


    function = "gbasis.integrals.electron_repulsion.ElectronRepulsionIntegral.construct_array_contraction (orientations)"

    def shapes(self, tier):
        base = [[0, 0, 0, 0], [1, 0, 0, 0], [1, 1, 0, 0], [1, 0, 1, 0], [2, 0, 0, 0], [2, 0, 1, 0]] if tier == "quick" else \
               [list(l) for l in itertools.product(range(3), repeat=4) if sum(l) <= 4 and l[0] >= l[1] and l[2] >= l[3] and (l[0], l[1]) >= (l[2], l[3])]
        return [dict(l=l) for l in base] + [dict(l=[0, 0, 0, 0], M=[2, 2, 2, 2]), dict(l=[0, 0, 0, 0], M=[1, 2, 3, 1]), dict(l=[1, 0, 0, 0], M=[1, 2, 2, 1])]

    def run(self, shape, M):
        er = M.mods["gbasis.integrals.electron_repulsion"]
        ls = shape["l"]
        Ms = shape.get("M", [1, 1, 1, 1])
        cs, es = four_centres(M, [1, 1, 1, 1])
        shells = [_real_shell(M, "s%d" % i, ls[i], 1, Ms[i], cs[i], es[i]) for i in range(4)]
        boys = boys_stub(M)
        perms = [(0, 1, 2, 3), (1, 0, 2, 3), (0, 1, 3, 2), (1, 0, 3, 2), (2, 3, 0, 1), (3, 2, 0, 1), (2, 3, 1, 0), (3, 2, 1, 0)]
        with bind.patched((er.ElectronRepulsionIntegral, "boys_func", staticmethod(boys))):
            ref = er.ElectronRepulsionIntegral.construct_array_contraction(*shells)
            for p in perms[1:]:
                if [ls[i] for i in p] == ls and tuple(p) != (0, 1, 2, 3) and False:
                    continue
                out = er.ElectronRepulsionIntegral.construct_array_contraction(*[shells[i] for i in p])
                # out index order follows the permuted shells: bring it back
                axes = []
                for k in range(4):
                    pos = p.index(k)
                    axes += [2 * pos, 2 * pos + 1]
                back = np.transpose(out, axes)
                M.true("eri_sym/%s/shape" % "".join(map(str, p)), back.shape == ref.shape, str(back.shape))
                for idx in np.ndindex(*ref.shape):
                    M.eq("eri_sym/%s/out%s" % ("".join(map(str, p)), tag(idx)), back[idx], ref[idx])


class BoysFunction:
    """BOUNDED (float): the real PointChargeIntegral.boys_func against F_m(T) = int_0^1 t^(2m) exp(-T t^2) dt at
    50 digits, m = 0..12, T from 0 to beyond 1e4 (dense between 10 and 60 where implementations switch regimes).
    The deductive kernels are proved for any function satisfying this contract."""

    function = "gbasis.integrals.point_charge.PointChargeIntegral.boys_func"
    fp = True
    fp_only = True
    bounded = True
    fp_tol = 1e-11

    def fp_shapes(self, tier):
        return [dict(block=b) for b in range(4)]

    shapes = fp_shapes

    def run(self, shape, M):
        if M.symbolic:
            return
        import mpmath

        boys = M.mods["gbasis.integrals.point_charge"].PointChargeIntegral.boys_func
        rng = M.sample_rng
        b = shape["block"]
        if b == 0:
            Ts = [0.0, 1e-12, 1e-8, 1e-4, 1e-2, 0.1, 0.5, 1.0, 2.0, 5.0] + [rng.uniform(0, 10) for _ in range(10)]
        elif b == 1:
            Ts = [10 + 0.5 * k for k in range(0, 100)] + [rng.uniform(10, 60) for _ in range(20)]
        elif b == 2:
            Ts = [60, 80, 100, 150, 200, 300, 500, 700, 1000, 2000, 5000, 1e4, 2e4, 1e5] + [rng.uniform(60, 2000) for _ in range(10)]
        else:
            Ts = [float(np.exp(rng.uniform(np.log(1e-6), np.log(1e4)))) for _ in range(40)]
        mp = mpmath.mp.clone()
        mp.dps = 40
        ms = np.arange(13)
        got = boys(ms[:, None], np.array(Ts)[None, :])
        worst = (0, None)
        for i, m in enumerate(ms):
            for j, T in enumerate(Ts):
                ref = mp.hyp1f1(m + mp.mpf(1) / 2, m + mp.mpf(3) / 2, -mp.mpf(T)) / (2 * int(m) + 1)
                err = abs(mp.mpf(float(got[i, j])) - ref) / ref
                if err > worst[0]:
                    worst = (err, (int(m), T))
        M.true("boys/relative-error-below-1e-11", worst[0] < 1e-11, "worst relative error %s at (m, T) = %s" % (mpmath.nstr(worst[0], 5), worst[1]))
