"""Contracts for C05: evaluation of contractions and their derivatives (gbasis/evals/_deriv.py,
eval.py, eval_deriv.py)."""
import itertools

import numpy as np

from engine import alg
from engine import sym as S
from specs.gauss1d import dgauss_poly

from .common import Frame, cart_components, make_shell, tag


def deriv_1d(F, a, alpha, t, order):
    """d^order/dt^order [ t^a exp(-alpha t^2) ] at t (t may be symbolic: total, no division)"""
    poly = dgauss_poly(a, alpha, order)
    tot = F.num(0)
    for m, c in poly.items():
        tot = tot + (t**m if m else F.num(1)) * c
    return tot * F.exp(-(alpha * t * t))


def spec_kernel(M, T, orders, comps, alphas, coeffs, norm):
    """out[m,c,n] = sum_k d[k,m] norm[c,k] prod_ax d^{o_ax}/dx^{o_ax}[t^a e^{-alpha t^2}](T[n,ax])"""
    F = M.SF
    K, Mn = coeffs.shape
    N = T.shape[0]
    out = {}
    one = {}
    for k in range(K):
        for n in range(N):
            for ax in range(3):
                for a in {c[ax] for c in comps}:
                    one[k, n, ax, a] = deriv_1d(F, a, alphas[k], T[n, ax], int(orders[ax]))
    for m in range(Mn):
        for ci, c in enumerate(comps):
            for n in range(N):
                tot = F.num(0)
                for k in range(K):
                    tot = tot + coeffs[k, m] * norm[ci, k] * one[k, n, 0, c[0]] * one[k, n, 1, c[1]] * one[k, n, 2, c[2]]
                out[m, ci, n] = tot
    return out


def _total(M, name, arr, tsyms):
    """well-definedness on centres / coordinate planes: no denominator involves a coordinate difference"""
    if not M.symbolic:
        return
    C = alg.ctx()
    bad = 0
    for v in arr.reshape(-1):
        val = S.expand(S.lift(v))
        for part in alg.simple_parts(val):
            syms = {s for s, _ in C.items(part.dm)}
            for f in part.df:
                for mono in C.factors[f]:
                    syms |= {s for s, _ in C.items(mono)}
            if any(C.names[s] in tsyms for s in syms):
                bad += 1
    M.true(name + "/total", bad == 0, "%d elements have a coordinate difference in a denominator" % bad)


def _inputs(M, l, K, Mn, N, comps_kind="default"):
    A = M.vec("A", 3)
    T = M.vec("T", (N, 3))
    pts = M.array(T + A)
    alphas = M.vec("a", K, "pos")
    coeffs = M.vec("d", (K, Mn))
    comps = cart_components(l)
    if comps_kind == "reversed":
        comps = comps[::-1]
    norm = M.vec("nrm", (len(comps), K))
    return A, T, pts, alphas, coeffs, np.array(comps), norm


def _chunks(lst, n):
    return [lst[i:i + n] for i in range(0, len(lst), n)]


class GeneralKernel:
    fp = True  # also sampled on the unmodified float64 code (bounded stand-in for rounding)
    """_eval_deriv_contractions: any orders, any component list, symbolic points (total on centres)"""

    function = "gbasis.evals._deriv._eval_deriv_contractions"

    def fp_shapes(self, tier):
        # ordinary samples plus tight primitives (exponent 750..5000, beyond exp(-alpha) underflow) at points 1e-3..5e-2 bohr from
        # the centre, 30-60 bohr from the origin
        sh = self.shapes(tier)
        step = max(1, len(sh) // (8 if tier == "quick" else 30))
        return sh[::step] + [dict(l=0, K=1, M=1, N=1, orders=[(0, 0, 0), (1, 0, 0), (0, 2, 0)], profile="tight-near"),
                             dict(l=1, K=2, M=1, N=2, orders=[(0, 0, 0), (1, 1, 0)], profile="tight-near")]

    def fp_domain_for(self, shape):
        if shape.get("profile") == "tight-near":
            return {"pos": (750.0, 5000.0), "zero_prob": 0.0, "real": 1.0, "real_by_prefix": {"T": (1e-3, 5e-2, True), "A": (30.0, 60.0, True)}}
        return {}

    def shapes(self, tier):
        out = []
        if tier == "quick":
            triples = [o for o in itertools.product(range(3), repeat=3)] + [(3, 0, 0), (0, 4, 1), (1, 3, 2), (4, 4, 4)]
            for l in range(0, 4):
                for ch in _chunks(triples, 8):
                    out.append(dict(l=l, K=1, M=1, N=1, orders=ch))
            out.append(dict(l=2, K=2, M=2, N=2, orders=[(1, 0, 2), (0, 0, 0), (3, 1, 0)]))
            out.append(dict(l=1, K=2, M=1, N=1, orders=[(2, 2, 2)], comps="reversed"))
            # the top of the property's range (i shells, order 4 on an axis)
            out.append(dict(l=6, K=1, M=1, N=1, orders=[(4, 0, 0), (0, 3, 2), (2, 2, 2), (1, 0, 4)]))
            out.append(dict(l=5, K=1, M=1, N=1, orders=[(4, 4, 4), (3, 0, 1), (0, 0, 0)]))
            out.append(dict(l=4, K=1, M=1, N=1, orders=[(0, 4, 1), (1, 1, 1)]))
        else:
            triples = list(itertools.product(range(5), repeat=3))
            for l in range(0, 7):
                for ch in _chunks(triples, 10 if l < 5 else 5):
                    out.append(dict(l=l, K=1, M=1, N=1, orders=ch))
            for l in (0, 1, 2, 3):
                out.append(dict(l=l, K=2, M=2, N=2, orders=[(1, 0, 2), (0, 0, 0), (3, 1, 0), (4, 0, 4)]))
            out.append(dict(l=2, K=3, M=1, N=1, orders=[(2, 2, 2), (0, 1, 0)], comps="reversed"))
            out.append(dict(l=1, K=4, M=3, N=1, orders=[(1, 1, 1)]))
        return out

    fn = "_eval_deriv_contractions"

    def run(self, shape, M):
        mod = M.mods["gbasis.evals._deriv"]
        A, T, pts, alphas, coeffs, comps, norm = _inputs(M, shape["l"], shape["K"], shape["M"], shape["N"], shape.get("comps", "default"))
        sT = M.to_spec(pts) - M.to_spec(A) if not M.symbolic else T
        sal, sco, sno = M.to_spec(alphas), M.to_spec(coeffs), M.to_spec(norm)
        tsyms = {"T_%d_%d" % (n, ax) for n in range(shape["N"]) for ax in range(3)}
        for o in shape["orders"]:
            orders = np.array(o)
            fr = Frame(pts=pts, A=A, alphas=alphas, coeffs=coeffs, norm=norm, comps=comps, orders=orders)
            out = getattr(mod, self.fn)(pts, orders, A, comps, alphas, coeffs, norm)
            name = "%s%s" % (self.fn.strip("_"), tag(o))
            fr.check(M, name, out)
            M.true(name + "/shape", tuple(out.shape) == (shape["M"], len(comps), shape["N"]), str(out.shape))
            _total(M, name, out, tsyms)
            spec = spec_kernel(M, sT, orders, [tuple(c) for c in comps], sal, sco, sno)
            for idx, v in spec.items():
                M.eq(name + "/out" + tag(idx), out[idx], v)


class DirectKernel(GeneralKernel):
    """_eval_first_second_order_deriv_contractions: requires orders <= 2 and full-shell component
    lists; same postcondition as the general back-end, so the two agree wherever both apply"""

    function = "gbasis.evals._deriv._eval_first_second_order_deriv_contractions"
    fn = "_eval_first_second_order_deriv_contractions"

    def shapes(self, tier):
        out = []
        triples = list(itertools.product(range(3), repeat=3))
        lmax = 3 if tier == "quick" else 6
        for l in range(0, lmax + 1):
            for ch in _chunks(triples, 9):
                out.append(dict(l=l, K=1, M=1, N=1, orders=ch))
        out.append(dict(l=2, K=2, M=2, N=2, orders=[(1, 0, 2), (0, 0, 0), (2, 1, 0), (2, 2, 2)]))
        out.append(dict(l=1, K=2, M=1, N=1, orders=[(2, 2, 1), (1, 2, 0)], comps="reversed"))
        if tier == "quick":
            # the top of the property's range too (g, h, i shells): closed forms that agree up to a power of 3 differ there
            for l in (4, 5, 6):
                out.append(dict(l=l, K=1, M=1, N=1, orders=[(2, 0, 0), (0, 2, 1), (1, 1, 2), (2, 2, 2), (0, 1, 0)]))
        if tier == "thorough":
            out.append(dict(l=3, K=3, M=2, N=2, orders=[(2, 0, 1), (1, 1, 1)], comps="reversed"))
        return out


class EvalBlocks:
    """Eval / EvalDeriv.construct_array_contraction: back-end selection with the kernels replaced
    by their contracts; a request the direct back-end cannot honour (an order above 2) and an unknown
    back-end name are rejected; argument validation."""

    function = "gbasis.evals.eval_deriv.EvalDeriv.construct_array_contraction"
    sparse = True

    def shapes(self, tier):
        return [dict(l=l) for l in (0, 2)]

    def run(self, shape, M):
        from engine import bind

        ed = M.mods["gbasis.evals.eval_deriv"]
        ev = M.mods["gbasis.evals.eval"]
        l = shape["l"]
        L = (l + 1) * (l + 2) // 2
        K, Mn, N = 2, 2, 2
        sh = make_shell(M, l, M.vec("A", 3), M.vec("d", (K, Mn)), M.vec("a", K, "pos"), norm_cont=M.vec("n", (Mn, L), "pos"))
        pts = M.vec("R", (N, 3))
        calls = []
        resg, resd = M.vec("G", (Mn, L, N), "opq"), M.vec("D", (Mn, L, N), "opq")

        def gen(coords, orders, center, comps, alphas, coeffs, norm):
            calls.append(("general", coords, orders, center, comps, alphas, coeffs, norm))
            return resg

        def direct(coords, orders, center, comps, alphas, coeffs, norm):
            calls.append(("direct", coords, orders, center, comps, alphas, coeffs, norm))
            return resd

        f = ed.EvalDeriv.construct_array_contraction
        npc = None

        ref_norm = sh.norm_prim_cart

        def same_norm(nrm):
            # the primitive normalisation handed to the kernel is the shell's own (shared with the integral modules)
            if not M.symbolic:
                return bool(np.allclose(np.asarray(nrm, dtype=float), np.asarray(ref_norm, dtype=float), rtol=1e-14, atol=0))
            from engine import alg, sym as S

            return all(alg.v_equal(S.expand(S.lift(x)), S.expand(S.lift(y))) for x, y in zip(nrm.reshape(-1), ref_norm.reshape(-1)))

        def args_ok(c, orders):
            comps = sh.angmom_components_cart
            return (c[1] is pts and (c[2] is orders or (orders is None and not np.any(c[2]))) and c[3] is sh.coord
                    and np.array_equal(c[4], comps) and c[5] is sh.exps and c[6] is sh.coeffs
                    and c[7].shape == (L, K) and same_norm(c[7]))

        with bind.patched((ed, "_eval_deriv_contractions", gen), (ed, "_eval_first_second_order_deriv_contractions", direct),
                          (ev, "_eval_deriv_contractions", gen)):
            for o in [(0, 0, 0), (1, 0, 2), (2, 2, 2), (3, 0, 0), (0, 1, 4)]:
                orders = np.array(o)
                del calls[:]
                out = f(sh, pts, orders)
                M.true("eval_deriv_block/general-default" + tag(o), len(calls) == 1 and calls[0][0] == "general" and args_ok(calls[0], orders) and out is resg,
                       "default back-end is 'general', arguments forwarded, result returned")
                del calls[:]
                out = f(sh, pts, orders, deriv_type="general")
                M.true("eval_deriv_block/general" + tag(o), len(calls) == 1 and calls[0][0] == "general" and args_ok(calls[0], orders) and out is resg, "")
                del calls[:]
                if max(o) <= 2:
                    out = f(sh, pts, orders, deriv_type="direct")
                    M.true("eval_deriv_block/direct" + tag(o), len(calls) == 1 and calls[0][0] == "direct" and args_ok(calls[0], orders) and out is resd, "")
                else:
                    M.raises("eval_deriv_block/direct-rejects-order-above-2" + tag(o), lambda: f(sh, pts, orders, deriv_type="direct"),
                             (ValueError, TypeError, NotImplementedError), "direct back-end answered an order > 2")
            M.raises("eval_deriv_block/rejects-unknown-backend", lambda: f(sh, pts, np.array([1, 0, 0]), deriv_type="fast"), Exception)
            del calls[:]
            out = ev.Eval.construct_array_contraction(sh, pts)
            M.true("eval_block/order-zero", len(calls) == 1 and calls[0][0] == "general" and args_ok(calls[0], None) and out is resg,
                   "values are the order-(0,0,0) derivative of the general back-end")
        E = (TypeError, ValueError)
        M.raises("eval_deriv_block/rejects/shell", lambda: f(None, pts, np.array([0, 0, 0])), TypeError)
        M.raises("eval_deriv_block/rejects/points-1d", lambda: f(sh, pts[0], np.array([0, 0, 0])), TypeError)
        M.raises("eval_deriv_block/rejects/points-cols", lambda: f(sh, pts[:, :2], np.array([0, 0, 0])), TypeError)
        M.raises("eval_deriv_block/rejects/orders-shape", lambda: f(sh, pts, np.array([0, 0])), TypeError)
        M.raises("eval_deriv_block/rejects/orders-negative", lambda: f(sh, pts, np.array([0, -1, 0])), ValueError)
        M.raises("eval_deriv_block/rejects/orders-float", lambda: f(sh, pts, np.array([0.0, 1.0, 0.0])), E)
        M.raises("eval_block/rejects/points-list", lambda: ev.Eval.construct_array_contraction(sh, [[0.0, 0.0, 0.0]]), TypeError)
