"""Contracts for C12: covariance under rigid motions, checked on the REAL block routines by two
symbolic runs (the system and its image under x -> g x + t):

    out'[.., a, .., a', v] = sum_{b,b',w} D_l[a,b] D_l'[a',b'] V[v,w] out[.., b, .., b', w]   (+ d x p for L)

D_l(g) is the representation of g on Cartesian monomials of degree l (obtained by expanding the rotated
monomials), corrected for the component dependence of the primitive normalisation; V = 1 (scalars), g
(vectors), det(g) g (axial vectors), the monomial representation again (moment orders).
g runs over the 48 signed axis permutations (exact index permutations with signs) and over the rotation
about z in the rational parametrisation c = (1-t^2)/(1+t^2), s = 2t/(1+t^2) with symbolic t; the signed
permutations conjugate it into the rotations about x and y, which together generate every proper rotation;
improper ones follow by composition with a reflection.  The translation vector is symbolic throughout.
"""
import itertools
from math import comb

import numpy as np

from engine import bind
from specs.gauss1d import dfact

from .common import cart_components, make_shell, tag
from .coulomb import boys_stub


def signed_perms():
    out = []
    for perm in itertools.permutations(range(3)):
        for signs in itertools.product((1, -1), repeat=3):
            g = [[0, 0, 0] for _ in range(3)]
            for i in range(3):
                g[i][perm[i]] = signs[i]
            out.append(g)
    return out


def det3(g):
    return (g[0][0] * (g[1][1] * g[2][2] - g[1][2] * g[2][1]) - g[0][1] * (g[1][0] * g[2][2] - g[1][2] * g[2][0])
            + g[0][2] * (g[1][0] * g[2][1] - g[1][1] * g[2][0]))


def poly_mul(p, q):
    r = {}
    for a, x in p.items():
        for b, y in q.items():
            k = (a[0] + b[0], a[1] + b[1], a[2] + b[2])
            r[k] = r[k] + x * y if k in r else x * y
    return r


def monomial_rep(F, g, comps):
    """D[a][b]: (g u)^a = sum_b D[a][b] u^b over monomials of the same degree"""
    lin = [{tuple(1 if k == j else 0 for k in range(3)): g[i][j] for j in range(3) if not _is_zero(g[i][j])} for i in range(3)]
    D = []
    for a in comps:
        p = {(0, 0, 0): F.num(1)}
        for i in range(3):
            for _ in range(a[i]):
                p = poly_mul(p, lin[i])
        D.append([p.get(tuple(b), None) for b in comps])
    return D


def _is_zero(x):
    return isinstance(x, (int, float)) and x == 0


def norm_ratio(F, a, b):
    """N(alpha, a) / N(alpha, b) for components of one shell: sqrt(prod (2b-1)!! / prod (2a-1)!!)"""
    num = dfact(2 * b[0] - 1) * dfact(2 * b[1] - 1) * dfact(2 * b[2] - 1)
    den = dfact(2 * a[0] - 1) * dfact(2 * a[1] - 1) * dfact(2 * a[2] - 1)
    return F.sqrt(F.num(num) / den) if num != den else F.num(1)


def apply_g(F, g, x, t):
    return [sum((x[j] * g[i][j] for j in range(3) if not _is_zero(g[i][j])), F.num(0)) + t[i] for i in range(3)]


MODULES = ["overlap", "kinetic", "momentum", "angmom", "moment1", "moment2", "point_charge", "eval_deriv", "eri"]


class Covariance:
    fp = True  # cross-check: the same contract on the unmodified float64 code at sampled inputs (bounded)
    fp_nsamp = (1, 3)

    def fp_shapes(self, tier):
        sh = self.shapes(tier)
        step = max(1, len(sh) // (6 if tier == "quick" else 24))
        return sh[::step][:(6 if tier == "quick" else 24)]

    function = "block routines of every integral / evaluation module on a system and its rigidly moved image"

    def shapes(self, tier):
        out = []
        pairs = [(0, 0), (1, 0), (1, 1), (2, 1)] if tier == "quick" else [(0, 0), (1, 0), (1, 1), (2, 0), (2, 1), (2, 2)]
        gs = list(range(48))
        for mod in MODULES:
            for la, lb in pairs:
                if mod == "eri" and la + lb > 2:
                    continue
                sel = gs if tier == "thorough" else gs[(la + lb) % 5::5]
                if tier == "thorough" and la + lb >= 3 and mod in ("angmom", "point_charge", "moment2"):
                    sel = gs[::3]
                for chunk in [sel[i:i + 6] for i in range(0, len(sel), 6)]:
                    out.append(dict(module=mod, la=la, lb=lb, g=chunk))
                if la + lb <= (2 if tier == "quick" else 3) and not (mod in ("eri", "moment2", "angmom") and la + lb > 2):
                    out.append(dict(module=mod, la=la, lb=lb, g=["rotz"]))
            # generalized shells (several segments): the segment axes must ride along unchanged
            if mod not in ("eri", "eval_deriv"):
                out.append(dict(module=mod, la=1, lb=0, g=[5, "rotz"], M=[2, 2]))
                out.append(dict(module=mod, la=1, lb=1, g=[29], M=[2, 3]))
        return out

    def run(self, shape, M):
        pc = M.mods["gbasis.integrals.point_charge"]
        er = M.mods["gbasis.integrals.electron_repulsion"]
        boys = boys_stub(M)
        with bind.patched((pc.PointChargeIntegral, "boys_func", staticmethod(boys)), (er.ElectronRepulsionIntegral, "boys_func", staticmethod(boys))):
            for gi in shape["g"]:
                self.one(shape, M, gi)

    def call(self, M, module, s1, s2, pt, origin):
        m = M.mods
        if module == "overlap":
            return m["gbasis.integrals.overlap"].Overlap.construct_array_contraction(s1, s2), "scalar", None
        if module == "kinetic":
            return m["gbasis.integrals.kinetic_energy"].KineticEnergyIntegral.construct_array_contraction(s1, s2), "scalar", None
        if module == "momentum":
            return m["gbasis.integrals.momentum"].MomentumIntegral.construct_array_contraction(s1, s2), "vector", None
        if module == "angmom":
            return m["gbasis.integrals.angular_momentum"].AngularMomentumIntegral.construct_array_contraction(s1, s2), "axial", None
        if module in ("moment1", "moment2"):
            orders = cart_components(1 if module == "moment1" else 2)
            return m["gbasis.integrals.moment"].Moment.construct_array_contraction(s1, s2, origin, np.array(orders)), "moment", orders
        if module == "point_charge":
            return m["gbasis.integrals.point_charge"].PointChargeIntegral.construct_array_contraction(s1, s2, M.array(np.array([pt], dtype=object)), M.array([M.F.num(1) if M.symbolic else 1.0]))[..., 0], "scalar", None
        if module == "eval_deriv":
            return None, "eval", None
        if module == "eri":
            return m["gbasis.integrals.electron_repulsion"].ElectronRepulsionIntegral.construct_array_contraction(s1, s2, s2, s1), "eri", None
        raise ValueError(module)

    def one(self, shape, M, gi):
        F = M.F
        module, la, lb = shape["module"], shape["la"], shape["lb"]
        nm = "cov/%s/g%s" % (module, gi)
        if gi == "rotz":
            t_ = M.real("rt")
            den = t_ * t_ + 1
            c, s = (1 - t_ * t_) / den, t_ * 2 / den
            g = [[c, -s, 0], [s, c, 0], [0, 0, 1]]
            detg = 1
        else:
            g = signed_perms()[gi]
            detg = det3(g)
        tv = [M.real("t%d" % i) for i in range(3)]
        # the system: centres written through differences (translation-free quantities stay small)
        A = M.vec("A", 3)
        B = M.array(A + M.vec("BA", 3))
        pt = M.array(A + M.vec("CA", 3))
        O = M.array(A + M.vec("OA", 3))
        Ma, Mb = shape.get("M", [1, 1])
        ea, eb = M.vec("a", 1, "pos"), M.vec("b", 1, "pos")
        da, db = M.vec("da", (1, Ma), "pos"), M.vec("db", (1, Mb), "pos")

        def shells(cA, cB):
            s1 = make_shell(M, la, cA, da, ea, norm_cont=M.vec("n1", (Ma, (la + 1) * (la + 2) // 2), "pos"))
            s2 = make_shell(M, lb, cB, db, eb, norm_cont=M.vec("n2", (Mb, (lb + 1) * (lb + 2) // 2), "pos"))
            return s1, s2

        zero = [F.num(0)] * 3
        A2, B2, pt2, O2 = (M.array(apply_g(F, g, list(x), tv)) for x in (A, B, pt, O))
        s1, s2 = shells(A, B)
        r1, r2 = shells(A2, B2)
        ca, cb = cart_components(la), cart_components(lb)
        Da, Db = monomial_rep(F, g, ca), monomial_rep(F, g, cb)

        def rep(D, comps, i, j):
            d = D[i][j]
            if d is None:
                return None
            return d * norm_ratio(F, comps[i], comps[j])

        if module == "eval_deriv":
            ed = M.mods["gbasis.evals.eval_deriv"].EvalDeriv
            # values and gradients at a point: value is a scalar field, gradient a vector field
            v0 = ed.construct_array_contraction(s1, M.array(np.array([pt], dtype=object)), np.array([0, 0, 0]))
            v1 = ed.construct_array_contraction(r1, M.array(np.array([pt2], dtype=object)), np.array([0, 0, 0]))
            for i in range(len(ca)):
                exp = F.num(0)
                for j in range(len(ca)):
                    d = rep(Da, ca, i, j)
                    if d is not None:
                        exp = exp + v0[0, j, 0] * d
                M.eq(nm + "/value" + tag((i,)), v1[0, i, 0], exp)
            e3 = [np.array([1, 0, 0]), np.array([0, 1, 0]), np.array([0, 0, 1])]
            g0 = [ed.construct_array_contraction(s1, M.array(np.array([pt], dtype=object)), o) for o in e3]
            g1 = [ed.construct_array_contraction(r1, M.array(np.array([pt2], dtype=object)), o) for o in e3]
            for i in range(len(ca)):
                for v in range(3):
                    exp = F.num(0)
                    for j in range(len(ca)):
                        d = rep(Da, ca, i, j)
                        if d is None:
                            continue
                        for w in range(3):
                            if not _is_zero(g[v][w]):
                                exp = exp + g0[w][0, j, 0] * d * g[v][w]
                    M.eq(nm + "/gradient" + tag((i, v)), g1[v][0, i, 0], exp)
            return
        full0, kind, orders = self.call(M, module, s1, s2, pt, O)
        full1, _, _ = self.call(M, module, r1, r2, pt2, O2)
        if kind == "eri":
            out0, out1 = full0, full1
            for idx in np.ndindex(len(ca), len(cb), len(cb), len(ca)):
                exp = F.num(0)
                for jdx in np.ndindex(len(ca), len(cb), len(cb), len(ca)):
                    ds = [rep(Da, ca, idx[0], jdx[0]), rep(Db, cb, idx[1], jdx[1]), rep(Db, cb, idx[2], jdx[2]), rep(Da, ca, idx[3], jdx[3])]
                    if any(d is None for d in ds):
                        continue
                    exp = exp + out0[0, jdx[0], 0, jdx[1], 0, jdx[2], 0, jdx[3]] * ds[0] * ds[1] * ds[2] * ds[3]
                M.eq(nm + "/out" + tag(idx), out1[0, idx[0], 0, idx[1], 0, idx[2], 0, idx[3]], exp)
            return
        okshape = full0.shape == full1.shape and full0.shape[:4] == (Ma, len(ca), Mb, len(cb))
        M.true(nm + "/shape", okshape, "%s %s, expected (M1, L1, M2, L2, ..) = %s" % (full0.shape, full1.shape, (Ma, len(ca), Mb, len(cb))))
        if not okshape:
            return
        pfull = None
        if kind == "axial":
            # L about the origin is not translation invariant: L' = det(g) g (L) + t x p'   (p' = g p)
            pfull = M.mods["gbasis.integrals.momentum"].MomentumIntegral.construct_array_contraction(s1, s2)
        if kind == "moment":
            Dm = monomial_rep(F, g, orders)
        for ma in range(Ma):
          for mb in range(Mb):
            out0, out1 = full0[ma:ma + 1, :, mb:mb + 1], full1[ma:ma + 1, :, mb:mb + 1]
            p0 = pfull[ma:ma + 1, :, mb:mb + 1] if pfull is not None else None
            seg = "" if (Ma, Mb) == (1, 1) else "/seg%d.%d" % (ma, mb)
            for i in range(len(ca)):
              for k in range(len(cb)):
                nvec = 1 if kind == "scalar" else (len(orders) if kind == "moment" else 3)
                for v in range(nvec):
                    exp = F.num(0)
                    for j in range(len(ca)):
                        dj = rep(Da, ca, i, j)
                        if dj is None:
                            continue
                        for l_ in range(len(cb)):
                            dl = rep(Db, cb, k, l_)
                            if dl is None:
                                continue
                            if kind == "scalar":
                                exp = exp + out0[0, j, 0, l_] * dj * dl
                            elif kind == "vector":
                                for w in range(3):
                                    if not _is_zero(g[v][w]):
                                        exp = exp + out0[0, j, 0, l_, w] * dj * dl * g[v][w]
                            elif kind == "axial":
                                for w in range(3):
                                    if not _is_zero(g[v][w]):
                                        exp = exp + out0[0, j, 0, l_, w] * dj * dl * g[v][w] * detg
                                # + (t x g p)_v
                                u, x_ = (v + 1) % 3, (v + 2) % 3
                                for w in range(3):
                                    if not _is_zero(g[x_][w]):
                                        exp = exp + out0_p(p0, j, l_, w) * dj * dl * g[x_][w] * tv[u]
                                    if not _is_zero(g[u][w]):
                                        exp = exp - out0_p(p0, j, l_, w) * dj * dl * g[u][w] * tv[x_]
                            else:
                                for w in range(len(orders)):
                                    if Dm[v][w] is not None:
                                        exp = exp + out0[0, j, 0, l_, w] * dj * dl * Dm[v][w]
                    got = out1[0, i, 0, k] if kind == "scalar" else out1[0, i, 0, k, v]
                    M.eq(nm + seg + "/out" + tag((i, k, v)), got, exp)


def out0_p(p0, j, l_, w):
    return p0[0, j, 0, l_, w]
