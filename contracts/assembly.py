"""Contracts on the assembly methods of BaseOneIndex / BaseTwoIndexSymmetric /
BaseTwoIndexAsymmetric / BaseFourIndexSymmetric (C09, C11, the layout part of C01-C08, C13).

The abstract construct_array_contraction is replaced by its contract: a *block function* returning
labelled opaque atoms B[s1,s2,..][m1,c1,m2,c2,..,t] (fresh array on every call, keyword arguments
recorded); generate_transformation is replaced by an uninterpreted function of its arguments
(opaque T[mu,c]); norm_cont is opaque.  Postcondition (for EVERY ordered tuple of shells):

   out[I(s1,m1,mu1), I(s2,m2,mu2), .., t] =
        sum_{c1,c2,..} T_{s1}[mu1,c1] T_{s2}[mu2,c2] .. n_{s1}[m1,c1] n_{s2}[m2,c2] .. B[s1,s2,..][m1,c1,m2,c2,..,t]

with T = identity for Cartesian shells and I(s,m,mu) = sum_{earlier shells} M*L + m*L + mu.
The symmetric classes carry the precondition that the block function has the symmetry the class
assumes ('sym':  B(s2,s1)[m2,c2,m1,c1] = B(s1,s2)[m1,c1,m2,c2]); relation='herm' states instead the
relation momentum-type operators satisfy (B(s2,s1) = conj(B(s1,s2))^T), for which the statement
of C08/C11 requires the same postcondition.
"""
import itertools

import numpy as np

from engine import bind

from .common import Frame, cart_components, make_shell, tag


# --------------------------------------------------------------------------------------------
# shells with opaque data


def sph_labels(l):
    if l == 1:
        return ("c1", "s1", "c0")
    return tuple(["s%d" % m for m in range(l, 0, -1)] + ["c%d" % m for m in range(l + 1)])


def build_shells(M, spec, prefix="s"):
    """spec: list of dicts(l=, M=, conv=) -> real shells with opaque norm_cont; conv='perm' uses a
    shell subclass that reports its components in another order / sign convention"""
    cmod = M.mods["gbasis.contractions"]
    shells = []
    for i, sp in enumerate(spec):
        l, Mn = sp["l"], sp["M"]
        L = (l + 1) * (l + 2) // 2
        cls = cmod.GeneralizedContractionShell
        if sp.get("conv") == "perm":
            cart = cart_components(l)[::-1]
            sph = tuple(("-" + x) if k % 2 else x for k, x in enumerate(sph_labels(l)[::-1]))

            class Conv(cmod.GeneralizedContractionShell):
                _cart = np.array(cart)
                _sph = sph

                @property
                def angmom_components_cart(self):
                    return self._cart.copy()

                @property
                def angmom_components_sph(self):
                    return self._sph

            cls = Conv
        sh = make_shell(
            M, l, M.vec("%sA%d" % (prefix, i), 3), M.vec("%sd%d" % (prefix, i), (1, Mn)), M.vec("%se%d" % (prefix, i), 1, "pos"),
            coord_type=sp.get("type", "cartesian"), norm_cont=M.vec("%sn%d" % (prefix, i), (Mn, L)), cls=cls)
        shells.append(sh)
    return shells


class TStub:
    """generate_transformation as an uninterpreted function of (angmom, cart list, sph list)"""

    def __init__(self, M):
        self.M = M
        self.tab = {}
        self.calls = []

    def key(self, angmom, cart, sph):
        return (int(angmom), tuple(tuple(int(x) for x in r) for r in cart), tuple(sph))

    def __call__(self, angmom, cart_order, sph_order, apply_from="left"):
        self.calls.append(apply_from)
        k = self.key(angmom, cart_order, sph_order)
        if k not in self.tab:
            self.tab[k] = self.M.vec("T%d" % len(self.tab), (len(k[2]), len(k[1])))
        t = self.tab[k]
        return t if apply_from == "left" else t.T

    def of(self, sh):
        k = self.key(sh.angmom, sh.angmom_components_cart, sh.angmom_components_sph)
        if k not in self.tab:
            self.tab[k] = self.M.vec("T%d" % len(self.tab), (len(k[2]), len(k[1])))
        return self.tab[k]


def weights(M, sh, ctype, T):
    """rows of the per-shell map: list over (m, mu) of list of (weight, (m, c))"""
    nc = M.to_spec(sh.norm_cont)
    Mn, L = nc.shape
    rows = []
    if ctype == "cartesian":
        for m in range(Mn):
            for c in range(L):
                rows.append([(nc[m, c], (m, c))])
    else:
        Tm = M.to_spec(T.of(sh))
        for m in range(Mn):
            for mu in range(Tm.shape[0]):
                rows.append([(Tm[mu, c] * nc[m, c], (m, c)) for c in range(L)])
    return rows


def _sizes(shapes):
    return [(sp["M"], (sp["l"] + 1) * (sp["l"] + 2) // 2) for sp in shapes]


# --------------------------------------------------------------------------------------------
# block functions


class Blocks:
    """labelled opaque block function; relation in {'none','sym','herm','eight'}"""

    def __init__(self, M, shells, nidx, trailing=(), relation="none", shells2=None):
        self.M = M
        self.shells = list(shells)
        self.shells2 = list(shells2) if shells2 is not None else None
        self.nidx = nidx
        self.trailing = tuple(trailing)
        self.relation = relation
        self.calls = []
        self.cache = {}

    def _pos(self, sh, which=0):
        lst = self.shells2 if (which == 1 and self.shells2 is not None) else self.shells
        for i, s in enumerate(lst):
            if s is sh:
                return i
        raise AssertionError("block requested for a shell that is not in the basis")

    def _dims(self, idxs):
        dims = []
        for w, i in enumerate(idxs):
            lst = self.shells2 if (w == 1 and self.shells2 is not None) else self.shells
            dims += list(lst[i].norm_cont.shape)
        return tuple(dims) + self.trailing

    def block(self, idxs):
        """the value of the block function for the ordered shell tuple idxs"""
        idxs = tuple(idxs)
        if idxs in self.cache:
            return self.cache[idxs]
        M = self.M
        dims = self._dims(idxs)
        arr = np.empty(dims, dtype=object)
        nt = len(self.trailing)
        for full in np.ndindex(*dims):
            lab = [(idxs[k], full[2 * k], full[2 * k + 1]) for k in range(self.nidx)]
            t = full[2 * self.nidx:]
            arr[full] = self._atom(lab, t)
        arr = M.array(arr)
        self.cache[idxs] = arr
        return arr

    def _name(self, lab, t, pre="B"):
        return pre + "_" + "_".join("%d.%d.%d" % x for x in lab) + ("_t" + ".".join(map(str, t)) if t else "")

    def _atom(self, lab, t):
        M = self.M
        rel = self.relation
        if rel == "none" or self.nidx == 1:
            return M.opq(self._name(lab, t))
        if rel == "sym":
            lab2 = sorted(lab)
            return M.opq(self._name(lab2, t))
        if rel == "herm":
            a, b = lab
            if a == b:
                return M.opq(self._name([a, b], t, "R"))
            lo, hi = sorted([a, b])
            re = M.opq(self._name([lo, hi], t, "R"))
            im = M.opq(self._name([lo, hi], t, "Q"))
            sgn = 1 if [a, b] == [lo, hi] else -1
            return re + M.F.imag() * im * sgn
        if rel == "eight":
            a, b, c, d = lab
            p1, p2 = tuple(sorted([a, b])), tuple(sorted([c, d]))
            q = sorted([p1, p2])
            return M.opq(self._name(list(q[0]) + list(q[1]), t))
        raise ValueError(rel)

    def stub(self, *conts, **kwargs):
        idxs = tuple(self._pos(c, w) for w, c in enumerate(conts))
        self.calls.append((idxs, dict(kwargs)))
        return self.block(idxs).copy()  # contract of the callee: fresh array


# --------------------------------------------------------------------------------------------
# expected arrays


def expected_items(M, blocks, shells_per_axis, types_per_axis, T):
    """the postcondition, element by element: yields (index, value) and the shape first"""
    F = M.SF
    rows_per_axis = []
    for shells, types in zip(shells_per_axis, types_per_axis):
        rows = []
        for si, (sh, ct) in enumerate(zip(shells, types)):
            for r in weights(M, sh, ct, T):
                rows.append((si, r))
        rows_per_axis.append(rows)
    dims = tuple(len(r) for r in rows_per_axis) + blocks.trailing
    yield dims
    nax = len(rows_per_axis)
    cache = {}
    for I in itertools.product(*[range(len(r)) for r in rows_per_axis]):
        sel = [rows_per_axis[a][I[a]] for a in range(nax)]
        idxs = tuple(s[0] for s in sel)
        blk = cache.get(idxs)
        if blk is None:
            blk = cache[idxs] = M.to_spec(blocks.block(idxs))
        for t in (np.ndindex(*blocks.trailing) if blocks.trailing else [()]):
            tot = F.num(0)
            for combo in itertools.product(*[s[1] for s in sel]):
                w = None
                pos = []
                for wt, mc in combo:
                    w = wt if w is None else w * wt
                    pos += list(mc)
                tot = tot + w * blk[tuple(pos) + t]
            yield I + t, tot


def expected(M, blocks, shells_per_axis, types_per_axis, T):
    """nested computation of the postcondition; returns object ndarray over the spec field"""
    it = expected_items(M, blocks, shells_per_axis, types_per_axis, T)
    dims = next(it)
    out = np.empty(dims, dtype=object)
    for idx, v in it:
        out[idx] = v
    return out


def compare_items(M, name, got, items):
    """streaming comparison (bounded memory for the four-index arrays)"""
    dims = next(items)
    M.true(name + "/shape", tuple(got.shape) == tuple(dims), "%s vs %s" % (got.shape, dims))
    if tuple(got.shape) != tuple(dims):
        return
    for idx, v in items:
        M.eq(name + "/out" + tag(idx), got[idx], v)


SPECIAL = ("identity", "cycle", "rect-eye", "select")


def make_transform(M, name, shape_, special=None):
    """the transformation matrix of a lincomb shape: generic symbolic entries, or one of the special exact matrices a
    fast path could single out - the identity, a cyclic shift (a permutation that is not its own inverse for n >= 3),
    the rectangular identity eye(k, n) with k < n, a 0/1 row selection in another order"""
    if not special:
        return M.vec(name, shape_)
    n = shape_[1]
    if special == "identity":
        rows = [[1 if i == j else 0 for j in range(n)] for i in range(n)]
    elif special == "cycle":
        rows = [[1 if j == (i + 1) % n else 0 for j in range(n)] for i in range(n)]
    elif special == "rect-eye":
        k = max(1, n - 1)
        rows = [[1 if i == j else 0 for j in range(n)] for i in range(k)]
    else:
        k = max(1, n - 1)
        rows = [[1 if j == (n - 1 - i) else 0 for j in range(n)] for i in range(k)]
    return M.array(np.array(rows, dtype=object)) if M.symbolic else np.array(rows, dtype=float)


def apply_transform(M, arr, U, naxes):
    """U applied to each of the first naxes axes (independent statement, plain loops)"""
    F = M.SF
    for ax in range(naxes):
        arr = np.moveaxis(arr, ax, 0)
        new = np.empty((U.shape[0],) + arr.shape[1:], dtype=object)
        for p in range(U.shape[0]):
            acc = None
            for i in range(U.shape[1]):
                term = arr[i] * U[p, i]
                acc = term if acc is None else acc + term
            new[p] = acc
        arr = np.moveaxis(new, 0, ax)
    return arr


def compare(M, name, got, exp):
    M.true(name + "/shape", tuple(got.shape) == tuple(exp.shape), "%s vs %s" % (got.shape, exp.shape))
    if tuple(got.shape) != tuple(exp.shape):
        return
    for idx in np.ndindex(*exp.shape):
        M.eq(name + "/out" + tag(idx), got[idx], exp[idx])


# --------------------------------------------------------------------------------------------
# harnesses

_TYPES = ("cartesian", "spherical")


def _basis_shapes(tier, nmax, lset, four=False):
    """shell lists with pairwise distinct block edge lengths"""
    out = []
    pool = [dict(l=0, M=2), dict(l=1, M=1), dict(l=2, M=1), dict(l=1, M=3, conv="perm"), dict(l=3, M=1), dict(l=0, M=3),
            dict(l=2, M=2, conv="perm"), dict(l=4, M=1)]
    pool = [p for p in pool if p["l"] in lset]
    for n in range(1, nmax + 1):
        out.append(pool[:n])
        if n >= 2:
            out.append(pool[n - 1::-1][:n])
        if n + 2 <= len(pool) and not four:
            out.append(pool[2:2 + n])
    return out


def _combination_shapes(trailing):
    """features that only matter TOGETHER: a generalized contraction (several segments, permuted component convention) that is a
    d shell (its spherical form is a genuinely rectangular 5 x 6 transformation), next to an ordinary shell, on every route -
    spherical, each mixed pattern, and a rectangular linear combination over the mixed basis"""
    shells = [dict(l=2, M=2, conv="perm"), dict(l=1, M=1)]
    out = [dict(shells=shells, method="spherical", trailing=trailing), dict(shells=shells[::-1], method="spherical", trailing=trailing)]
    for pat in (["spherical", "cartesian"], ["cartesian", "spherical"], ["spherical", "spherical"]):
        out.append(dict(shells=shells, method="mix", types=pat, trailing=trailing))
    out.append(dict(shells=shells, method="lincomb", types=["spherical", "cartesian"], trailing=trailing, rect=True))
    out.append(dict(shells=shells[::-1], method="lincomb", types=["cartesian", "spherical"], trailing=trailing, rect=True))
    return out


class AssemblyBase:
    sparse = True
    relation = "sym"
    trailing_opts = ((), (2,))

    def _mk(self, M, shape):
        raise NotImplementedError


class TwoSymm(AssemblyBase):
    """BaseTwoIndexSymmetric.construct_array_{cartesian,spherical,mix,lincomb}"""

    fp = True  # cross-check: the same contract on the unmodified float64 code at sampled inputs (bounded)
    fp_nsamp = (1, 3)

    def fp_shapes(self, tier):
        sh = self.shapes(tier)
        step = max(1, len(sh) // (6 if tier == "quick" else 24))
        return sh[::step][:(6 if tier == "quick" else 24)]


    function = "gbasis.base_two_symm.BaseTwoIndexSymmetric.construct_array_*"
    modname = "gbasis.base_two_symm"
    clsname = "BaseTwoIndexSymmetric"
    relation = "sym"

    def shapes(self, tier):
        out = []
        nmax = 3 if tier == "quick" else 4
        lset = (0, 1, 2) if tier == "quick" else (0, 1, 2, 3, 4)
        for shells in _basis_shapes(tier, nmax, lset):
            n = len(shells)
            for trailing in ([], [2]):
                if trailing and n > 2 and tier == "quick":
                    continue
                out.append(dict(shells=shells, method="cartesian", trailing=trailing))
                out.append(dict(shells=shells, method="spherical", trailing=trailing))
                pats = list(itertools.product(_TYPES, repeat=n))
                if tier == "quick" and n > 2:
                    pats = pats[1:-1:2]
                for pat in pats:
                    out.append(dict(shells=shells, method="mix", types=list(pat), trailing=trailing))
            out.append(dict(shells=shells, method="lincomb", types=["spherical", "cartesian", "spherical", "cartesian"][:n], trailing=[], rect=True))
            if n <= 2:
                out.append(dict(shells=shells, method="lincomb", types=["cartesian"] * n, trailing=[], rect=False))
            out.append(dict(shells=shells, method="lincomb", types=["spherical"] * n, trailing=[2], rect=True))
        for sp in SPECIAL:
            out.append(dict(shells=[dict(l=1, M=1), dict(l=0, M=2)], method="lincomb", types=["cartesian", "cartesian"], trailing=[], rect=False, special=sp))
            out.append(dict(shells=[dict(l=1, M=1), dict(l=0, M=1)], method="lincomb", types=["spherical", "cartesian"], trailing=[2], rect=False, special=sp))
        out += _combination_shapes([])
        return out

    def run(self, shape, M):
        mod = M.mods[self.modname]
        base = getattr(mod, self.clsname)
        shells = build_shells(M, shape["shells"])
        blocks = Blocks(M, shells, 2, shape["trailing"], self.relation)
        T = TStub(M)

        class Concrete(base):
            def construct_array_contraction(self, c1, c2, **kw):
                return blocks.stub(c1, c2, **kw)

        obj = Concrete(shells)
        kw = {"probe": 7}
        method = shape["method"]
        n = len(shells)
        fr = Frame(**{"n%d" % i: s.norm_cont for i, s in enumerate(shells)})
        with bind.patched((mod, "generate_transformation", T)):
            if method == "cartesian":
                types = ["cartesian"] * n
                got = obj.construct_array_cartesian(**kw)
            elif method == "spherical":
                types = ["spherical"] * n
                got = obj.construct_array_spherical(**kw)
            elif method == "mix":
                types = shape["types"]
                got = obj.construct_array_mix(list(types), **kw)
            else:
                types = shape["types"]
                ncont = sum(s.norm_cont.shape[0] * (s.norm_cont.shape[1] if t == "cartesian" else 2 * s.angmom + 1)
                            for s, t in zip(shells, types))
                # rectangular: fewer orbitals than contractions (every contraction index is still summed over)
                U = make_transform(M, "U", (min(3, ncont + 1) if shape["rect"] else ncont, ncont), shape.get("special"))
                got = obj.construct_array_lincomb(U, list(types), **kw)
        fr.check(M, "asm", got)
        M.true("asm/kwargs", all(k == kw for _, k in blocks.calls) and len(blocks.calls) > 0, "keyword arguments reach every block call")
        M.true("asm/transform-side", all(c == "left" for c in T.calls), "generate_transformation(..., 'left')")
        exp = expected(M, blocks, [shells, shells], [types, types], T)
        if method == "lincomb":
            exp = apply_transform(M, exp, M.to_spec(U), 2)
        compare(M, "asm", got, exp)


class TwoSymmHerm(TwoSymm):
    """same postcondition for a block function with the relation momentum-type operators obey
    (B(s2,s1) = conj(B(s1,s2))^T): the assembled array must hold the block-function value for every
    ordered pair (C08 / C11)."""

    relation = "herm"

    def shapes(self, tier):
        out = []
        for shells in ([dict(l=0, M=2)], [dict(l=0, M=2), dict(l=1, M=1)], [dict(l=1, M=1), dict(l=0, M=2), dict(l=2, M=1)]):
            n = len(shells)
            out.append(dict(shells=shells, method="cartesian", trailing=[3]))
            out.append(dict(shells=shells, method="spherical", trailing=[3]))
            out.append(dict(shells=shells, method="mix", types=(["spherical", "cartesian"] * 2)[:n], trailing=[3]))
            out.append(dict(shells=shells, method="lincomb", types=["cartesian"] * n, trailing=[3], rect=True))
        return out


class TwoAsymm(AssemblyBase):
    fp = True  # cross-check: the same contract on the unmodified float64 code at sampled inputs (bounded)
    fp_nsamp = (1, 3)

    def fp_shapes(self, tier):
        sh = self.shapes(tier)
        step = max(1, len(sh) // (6 if tier == "quick" else 24))
        return sh[::step][:(6 if tier == "quick" else 24)]

    function = "gbasis.base_two_asymm.BaseTwoIndexAsymmetric.construct_array_*"

    def shapes(self, tier):
        out = []
        A = [dict(l=0, M=2), dict(l=2, M=1), dict(l=1, M=1)]
        B = [dict(l=1, M=2, conv="perm"), dict(l=0, M=1), dict(l=3 if tier == "thorough" else 2, M=1), dict(l=0, M=3)]
        combos = [(1, 1), (2, 1), (1, 3), (3, 2)] + ([(3, 4), (2, 4)] if tier == "thorough" else [])
        for na, nb in combos:
            sa, sb = A[:na], B[:nb]
            for trailing in ([], [2]):
                out.append(dict(a=sa, b=sb, method="cartesian", trailing=trailing))
                out.append(dict(a=sa, b=sb, method="spherical", trailing=trailing))
            pats = list(itertools.product(_TYPES, repeat=na + nb))
            if tier == "quick":
                pats = pats[:: max(1, len(pats) // 6)]
            for pat in pats:
                out.append(dict(a=sa, b=sb, method="mix", ta=list(pat[:na]), tb=list(pat[na:]), trailing=[]))
            out.append(dict(a=sa, b=sb, method="lincomb", ta=["spherical"] * na, tb=(["cartesian", "spherical"] * 2)[:nb], trailing=[], tr=[True, True]))
            out.append(dict(a=sa, b=sb, method="lincomb", ta=["cartesian"] * na, tb=["cartesian"] * nb, trailing=[2], tr=[False, True]))
            out.append(dict(a=sa, b=sb, method="lincomb", ta=["spherical"] * na, tb=["spherical"] * nb, trailing=[], tr=[True, False]))
        # features that only matter together (see _combination_shapes): a generalized d shell on one side, an ordinary d shell on the other
        ga, gb = [dict(l=2, M=2, conv="perm"), dict(l=1, M=1)], [dict(l=0, M=2), dict(l=2, M=1)]
        out.append(dict(a=ga, b=gb, method="spherical", trailing=[]))
        out.append(dict(a=ga, b=gb, method="mix", ta=["spherical", "cartesian"], tb=["cartesian", "spherical"], trailing=[]))
        out.append(dict(a=gb, b=ga, method="mix", ta=["cartesian", "spherical"], tb=["spherical", "spherical"], trailing=[]))
        out.append(dict(a=ga, b=gb, method="lincomb", ta=["spherical", "cartesian"], tb=["cartesian", "spherical"], trailing=[], tr=[True, True]))
        for sp, sp2 in zip(SPECIAL, SPECIAL[1:] + SPECIAL[:1]):
            out.append(dict(a=[dict(l=1, M=1)], b=[dict(l=0, M=2), dict(l=1, M=1)], method="lincomb", ta=["cartesian"], tb=["cartesian", "spherical"], trailing=[],
                            tr=[True, True], special=sp, special2=sp2))
        return out

    def run(self, shape, M):
        mod = M.mods["gbasis.base_two_asymm"]
        sa = build_shells(M, shape["a"], "a")
        sb = build_shells(M, shape["b"], "b")
        blocks = Blocks(M, sa, 2, shape["trailing"], "none", shells2=sb)
        T = TStub(M)

        class Concrete(mod.BaseTwoIndexAsymmetric):
            def construct_array_contraction(self, c1, c2, **kw):
                return blocks.stub(c1, c2, **kw)

        obj = Concrete(sa, sb)
        kw = {"probe": 7}
        method = shape["method"]
        with bind.patched((mod, "generate_transformation", T)):
            if method == "cartesian":
                ta, tb = ["cartesian"] * len(sa), ["cartesian"] * len(sb)
                got = obj.construct_array_cartesian(**kw)
            elif method == "spherical":
                ta, tb = ["spherical"] * len(sa), ["spherical"] * len(sb)
                got = obj.construct_array_spherical(**kw)
            elif method == "mix":
                ta, tb = shape["ta"], shape["tb"]
                got = obj.construct_array_mix(list(ta), list(tb), **kw)
            else:
                ta, tb = shape["ta"], shape["tb"]

                def ncont(shs, ts):
                    return sum(s.norm_cont.shape[0] * (s.norm_cont.shape[1] if t == "cartesian" else 2 * s.angmom + 1) for s, t in zip(shs, ts))

                U1 = make_transform(M, "U", (ncont(sa, ta) + 1, ncont(sa, ta)), shape.get("special")) if shape["tr"][0] else None
                U2 = make_transform(M, "V", (ncont(sb, tb) + 2, ncont(sb, tb)), shape.get("special2")) if shape["tr"][1] else None
                got = obj.construct_array_lincomb(U1, U2, list(ta), list(tb), **kw)
        M.true("asm/kwargs", all(k == kw for _, k in blocks.calls) and len(blocks.calls) == len(sa) * len(sb), "every block called once with the keyword arguments")
        M.true("asm/transform-side", all(c == "left" for c in T.calls), "generate_transformation(..., 'left')")
        exp = expected(M, blocks, [sa, sb], [ta, tb], T)
        if method == "lincomb":
            if U1 is not None:
                exp = apply_transform(M, exp, M.to_spec(U1), 1)
            if U2 is not None:
                exp = np.moveaxis(apply_transform(M, np.moveaxis(exp, 1, 0), M.to_spec(U2), 1), 0, 1)
        compare(M, "asm", got, exp)


class OneIndex(AssemblyBase):
    fp = True  # cross-check: the same contract on the unmodified float64 code at sampled inputs (bounded)
    fp_nsamp = (1, 3)

    def fp_shapes(self, tier):
        sh = self.shapes(tier)
        step = max(1, len(sh) // (6 if tier == "quick" else 24))
        return sh[::step][:(6 if tier == "quick" else 24)]

    function = "gbasis.base_one.BaseOneIndex.construct_array_*"

    def shapes(self, tier):
        out = []
        lset = (0, 1, 2, 3) if tier == "quick" else (0, 1, 2, 3, 4)
        for shells in _basis_shapes(tier, 3 if tier == "quick" else 4, lset):
            n = len(shells)
            for trailing in ([2], [], [2, 3]):
                out.append(dict(shells=shells, method="cartesian", trailing=trailing))
                out.append(dict(shells=shells, method="spherical", trailing=trailing))
            for pat in itertools.product(_TYPES, repeat=n):
                out.append(dict(shells=shells, method="mix", types=list(pat), trailing=[2]))
            out.append(dict(shells=shells, method="lincomb", types=(["spherical", "cartesian"] * 2)[:n], trailing=[2], rect=True))
            out.append(dict(shells=shells, method="lincomb", types=["cartesian"] * n, trailing=[2], rect=False))
            out.append(dict(shells=shells, method="lincomb", types=["spherical"] * n, trailing=[2], rect=True))
        for sp in SPECIAL:
            out.append(dict(shells=[dict(l=1, M=1), dict(l=0, M=2)], method="lincomb", types=["spherical", "cartesian"], trailing=[2], rect=False, special=sp))
        out += _combination_shapes([2])
        return out

    def run(self, shape, M):
        mod = M.mods["gbasis.base_one"]
        shells = build_shells(M, shape["shells"])
        blocks = Blocks(M, shells, 1, shape["trailing"], "none")
        T = TStub(M)

        class Concrete(mod.BaseOneIndex):
            def construct_array_contraction(self, c1, **kw):
                return blocks.stub(c1, **kw)

        obj = Concrete(shells)
        kw = {"probe": 7}
        method = shape["method"]
        n = len(shells)
        with bind.patched((mod, "generate_transformation", T)):
            if method == "cartesian":
                types = ["cartesian"] * n
                got = obj.construct_array_cartesian(**kw)
            elif method == "spherical":
                types = ["spherical"] * n
                got = obj.construct_array_spherical(**kw)
            elif method == "mix":
                types = shape["types"]
                got = obj.construct_array_mix(list(types), **kw)
            else:
                types = shape["types"]
                ncont = sum(s.norm_cont.shape[0] * (s.norm_cont.shape[1] if t == "cartesian" else 2 * s.angmom + 1) for s, t in zip(shells, types))
                U = make_transform(M, "U", ((ncont - 1) if shape["rect"] and ncont > 1 else ncont, ncont), shape.get("special"))
                got = obj.construct_array_lincomb(U, list(types), **kw)
        M.true("asm/kwargs", all(k == kw for _, k in blocks.calls) and len(blocks.calls) > 0, "keyword arguments reach every block call")
        M.true("asm/transform-side", all(c == "left" for c in T.calls), "generate_transformation(..., 'left')")
        exp = expected(M, blocks, [shells], [types], T)
        if method == "lincomb":
            exp = apply_transform(M, exp, M.to_spec(U), 1)
        compare(M, "asm", got, exp)


class FourSymm(AssemblyBase):
    fp = True  # cross-check: the same contract on the unmodified float64 code at sampled inputs (bounded)
    fp_nsamp = (1, 3)

    def fp_shapes(self, tier):
        sh = self.shapes(tier)
        step = max(1, len(sh) // (6 if tier == "quick" else 24))
        return sh[::step][:(6 if tier == "quick" else 24)]

    function = "gbasis.base_four_symm.BaseFourIndexSymmetric.construct_array_*"

    def shapes(self, tier):
        out = []
        if tier == "quick":
            bases = [[dict(l=0, M=2)], [dict(l=1, M=2)], [dict(l=0, M=2), dict(l=1, M=1)], [dict(l=1, M=2, conv="perm"), dict(l=0, M=1)],
                     [dict(l=1, M=1), dict(l=0, M=1), dict(l=0, M=2)]]
        else:
            bases = [[dict(l=0, M=2)], [dict(l=1, M=2, conv="perm")], [dict(l=0, M=2), dict(l=1, M=1)], [dict(l=1, M=1), dict(l=0, M=1), dict(l=0, M=2)],
                     [dict(l=2, M=1), dict(l=0, M=2)], [dict(l=0, M=1), dict(l=1, M=1), dict(l=0, M=2), dict(l=0, M=3)]]
        for shells in bases:
            n = len(shells)
            out.append(dict(shells=shells, method="cartesian", trailing=[]))
            out.append(dict(shells=shells, method="spherical", trailing=[]))
            pats = list(itertools.product(_TYPES, repeat=n))
            if n > 2:
                pats = pats[1:-1:3]
            for pat in pats:
                out.append(dict(shells=shells, method="mix", types=list(pat), trailing=[]))
            ncart = sum(s["M"] * (s["l"] + 1) * (s["l"] + 2) // 2 for s in shells)
            if n <= 2 and ncart <= 5:
                out.append(dict(shells=shells, method="lincomb", types=(["spherical", "cartesian"] * 2)[:n], trailing=[], rect=True))
                out.append(dict(shells=shells, method="cartesian", trailing=[2]))
        for sp in SPECIAL:
            out.append(dict(shells=[dict(l=0, M=2), dict(l=0, M=1)], method="lincomb", types=["cartesian", "spherical"], trailing=[], rect=False, special=sp))
        return out

    def run(self, shape, M):
        mod = M.mods["gbasis.base_four_symm"]
        shells = build_shells(M, shape["shells"])
        blocks = Blocks(M, shells, 4, shape["trailing"], "eight")
        T = TStub(M)

        class Concrete(mod.BaseFourIndexSymmetric):
            def construct_array_contraction(self, c1, c2, c3, c4, **kw):
                return blocks.stub(c1, c2, c3, c4, **kw)

        obj = Concrete(shells)
        kw = {"probe": 7}
        method = shape["method"]
        n = len(shells)
        with bind.patched((mod, "generate_transformation", T)):
            if method == "cartesian":
                types = ["cartesian"] * n
                got = obj.construct_array_cartesian(**kw)
            elif method == "spherical":
                types = ["spherical"] * n
                got = obj.construct_array_spherical(**kw)
            elif method == "mix":
                types = shape["types"]
                got = obj.construct_array_mix(list(types), **kw)
            else:
                types = shape["types"]
                ncont = sum(s.norm_cont.shape[0] * (s.norm_cont.shape[1] if t == "cartesian" else 2 * s.angmom + 1) for s, t in zip(shells, types))
                U = make_transform(M, "U", (min(2, ncont) if shape["rect"] else ncont, ncont), shape.get("special"))
                got = obj.construct_array_lincomb(U, list(types), **kw)
        M.true("asm/kwargs", all(k == kw for _, k in blocks.calls) and len(blocks.calls) > 0, "keyword arguments reach every block call")
        M.true("asm/transform-side", all(c == "left" for c in T.calls), "generate_transformation(..., 'left')")
        if method == "lincomb":
            exp = expected(M, blocks, [shells] * 4, [types] * 4, T)
            exp = apply_transform(M, exp, M.to_spec(U), 4)
            compare(M, "asm", got, exp)
        else:
            compare_items(M, "asm", got, expected_items(M, blocks, [shells] * 4, [types] * 4, T))
