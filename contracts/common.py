"""helpers shared by the contract harnesses"""
import itertools

import numpy as np

from engine import bind


def idx_iter(shape):
    return np.ndindex(*shape)


def tag(idx):
    return "[" + ",".join(str(int(i)) for i in idx) + "]"


def cart_components(l):
    """independent statement of the documented default order (x descending, then y descending)"""
    return [(x, y, l - x - y) for x in range(l, -1, -1) for y in range(l - x, -1, -1)]


class Frame:
    """frame condition: every array argument is bit-identical (same object, same elements) after
    the call, and the result shares no memory with any argument ('fresh')."""

    def __init__(self, **arrays):
        self.arrays = arrays
        self.copies = {}
        for k, a in arrays.items():
            if isinstance(a, np.ndarray):
                self.copies[k] = (a.shape, list(a.reshape(-1)) if a.dtype == object or True else None)
            elif isinstance(a, list):
                self.copies[k] = ("list", list(a))
            elif isinstance(a, tuple):
                self.copies[k] = ("tuple", a)
        self.err = np.geterr()

    def check(self, M, name, result=None):
        changed = []
        for k, a in self.arrays.items():
            if isinstance(a, np.ndarray):
                shape, elems = self.copies[k]
                now = list(a.reshape(-1)) if a.shape == shape else None
                if now is None or len(now) != len(elems) or any(
                    (x is not y) and not _same(x, y) for x, y in zip(now, elems)
                ):
                    changed.append(k)
            elif isinstance(a, (list, tuple)):
                kind, elems = self.copies[k]
                if len(a) != len(elems) or any(x is not y and x != y for x, y in zip(a, elems)):
                    changed.append(k)
        M.true(name + "/frame", not changed, "arguments modified: %s" % changed)
        if result is not None and isinstance(result, np.ndarray):
            shared = [k for k, a in self.arrays.items() if isinstance(a, np.ndarray) and np.shares_memory(result, a)]
            M.true(name + "/fresh", not shared, "result shares memory with: %s" % shared)
        M.true(name + "/errstate", np.geterr() == self.err, "numpy error state changed: %s -> %s" % (self.err, np.geterr()))
        np.seterr(**self.err)


def _same(x, y):
    if isinstance(x, (float, int, complex, np.generic)) and isinstance(y, (float, int, complex, np.generic)):
        return x == y
    return x is y


def make_shell(M, angmom, coord, coeffs, exps, coord_type="cartesian", norm_cont=None, cls=None, icenter=None):
    """build a real GeneralizedContractionShell.  norm_cont=None -> the real assign_norm_cont runs;
    otherwise assign_norm_cont is stubbed during construction and the given array is stored."""
    cmod = M.mods["gbasis.contractions"]
    cls = cls or cmod.GeneralizedContractionShell
    if norm_cont is None:
        return cls(angmom, coord, coeffs, exps, coord_type, icenter=icenter)
    real = cmod.GeneralizedContractionShell.assign_norm_cont

    def stub(self):
        self.norm_cont = norm_cont

    cmod.GeneralizedContractionShell.assign_norm_cont = stub
    try:
        sh = cls(angmom, coord, coeffs, exps, coord_type, icenter=icenter)
    finally:
        cmod.GeneralizedContractionShell.assign_norm_cont = real
    return sh


def wlog_two_centre(M, pfx=""):
    """(P, AB, a, b) -> A = P + b AB/(a+b), B = P - a AB/(a+b).  Onto: AB = A-B, P = (aA+bB)/(a+b)."""
    P = M.vec(pfx + "P", 3)
    AB = M.vec(pfx + "AB", 3)
    a = M.pos(pfx + "a")
    b = M.pos(pfx + "b")
    A = P + AB * (b / (a + b))
    B = P - AB * (a / (a + b))
    return P, AB, a, b, M.array(A), M.array(B)


class PathLog:
    """call log of a body that M.paths runs once per feasible path.  begin() opens the log of one run; the object
    reads like the list of the LAST run (len, index, iteration); every(pred) holds when pred(log) holds for the log
    of EVERY run - a callee precondition must hold on each path, not only on the one explored last."""

    def __init__(self):
        self.runs = [[]]
        self.started = False

    def begin(self):
        if self.started:
            self.runs.append([])
        self.started = True

    def append(self, x):
        self.runs[-1].append(x)

    def every(self, pred):
        return all(pred(r) for r in self.runs)

    def __len__(self):
        return len(self.runs[-1])

    def __getitem__(self, i):
        return self.runs[-1][i]

    def __iter__(self):
        return iter(self.runs[-1])

    def __bool__(self):
        return bool(self.runs[-1])


class Seen(dict):
    """record of what a substituted callee was called with; reading a missing entry means the code under contract
    never called it - reported as the failed obligation <name>/callee-called instead of a KeyError of the harness"""

    def __init__(self, name):
        dict.__init__(self)
        self.name = name

    def __missing__(self, key):
        from engine.runner import CalleeNotCalled

        raise CalleeNotCalled(self.name, key)
