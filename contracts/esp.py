"""Contract for C14 (gbasis/evals/electrostatic_potential.py) with point_charge_integral replaced
by its contract (opaque V[a,b,n] = -q_n int phi_a phi_b / |r - R_n|, C03):

   out[n] = sum_A [d_nA >= thr] Z_A / d_nA  -  sum_ab gamma_ab V[a,b,n]      (V requested with q = -1)

a nucleus is omitted iff its distance to the point is below the threshold, whatever its charge; with a
transformation the density matrix has the transformed dimension (square and rectangular alike);
numpy's error state is restored on every path."""
import itertools

import numpy as np

from engine import bind

from .assembly import build_shells
from .common import Frame, PathLog, tag
from .density import sym_dm


def _asym(M, shape):
    h = M.vec("h", shape)
    h[1, 0] = h[0, 1] + M.pos("gap")  # asymmetric for every value of the symbols, not merely generically
    return h


class ESP:
    function = "gbasis.evals.electrostatic_potential.electrostatic_potential"
    sparse = True
    fp = True  # the same contract on the unmodified float64 code (bounded), incl. points 1e-6 .. 1e-4 bohr from a nucleus
    fp_nsamp = (2, 6)  # that sits a few bohr from the origin (where a distance formula that cancels loses all accuracy)

    def fp_shapes(self, tier):
        return [dict(types=["cartesian", "cartesian"], nuc=1, npts=1, transform=None, thr="zero", near=True),
                dict(types=["cartesian", "spherical"], nuc=2, npts=1, transform="rect", thr="zero", near=True),
                dict(types=["cartesian", "cartesian"], nuc=2, npts=1, transform=None, thr="pos")]

    def fp_domain_for(self, shape):
        return {"real": 3.0, "by_prefix": {"near": (1e-6, 1e-4)}, "zero_prob": 0.0}

    def shapes(self, tier):
        out = []
        for nuc in (1, 2):
            for npts in (1, 2) if nuc == 1 else (1,):
                out.append(dict(types=["cartesian", "cartesian"], nuc=nuc, npts=npts, transform=None, thr="pos"))
        out.append(dict(types=["spherical"], nuc=1, npts=1, transform="square", thr="pos"))
        out.append(dict(types=["cartesian", "spherical"], nuc=1, npts=1, transform="rect", thr="pos"))
        out.append(dict(types=["spherical", "spherical"], nuc=2, npts=1, transform="rect", thr="zero"))
        # mixed route without a transformation; the second shell (two segments) Cartesian, then spherical
        out.append(dict(types=["spherical", "cartesian"], nuc=1, npts=1, transform=None, thr="zero"))
        out.append(dict(types=["cartesian", "spherical"], nuc=1, npts=1, transform=None, thr="pos"))
        out.append(dict(types=["cartesian"], nuc=1, npts=1, transform=None, thr="zero"))
        out.append(dict(types=["cartesian"], nuc=1, npts=1, transform=None, thr="default"))
        out.append(dict(types=["cartesian"], nuc=2, npts=1, transform=None, thr="pos", coincide=[0]))
        out.append(dict(types=["cartesian", "cartesian"], nuc=1, npts=1, transform=None, thr="pos", what="rejects"))
        return out

    def run(self, shape, M):
        esp = M.mods["gbasis.evals.electrostatic_potential"]
        types = shape["types"]
        basis = build_shells(M, [dict(l=1 if i else 0, M=1 + i, type=t) for i, t in enumerate(types)])
        ncont = sum(s.norm_cont.shape[0] * (s.num_cart if t == "cartesian" else s.num_sph) for s, t in zip(basis, types))
        tr = shape["transform"]
        korb = ncont if tr in (None, "square") else ncont - 1 if ncont > 1 else ncont + 1
        U = M.vec("U", (korb, ncont)) if tr else None
        dm = sym_dm(M, korb)
        N, A = shape["npts"], shape["nuc"]
        points = M.vec("P", (N, 3))
        co = shape.get("coincide", [])
        if N == 1:
            rows = []
            for a in range(A):
                off = M.vec("near%d" % a, 3, "pos") if shape.get("near") else M.vec("D%d" % a, 3)
                rows.append(points[0] if a in co else M.array(points[0] - off))
            nuc = M.array(np.array(rows, dtype=object))
        else:
            nuc = M.vec("Rn", (A, 3))
        Z = M.vec("Z", A)
        V = M.vec("V", (korb, korb, N), "opq")
        calls = PathLog()

        def pci(basis_, pts, charges, transform=None):
            calls.append((basis_, pts, charges, transform))
            return V.copy()

        if shape["thr"] == "pos":
            thr = M.pos("thr")
            kw = dict(threshold_dist=M.scalar(thr))
        elif shape["thr"] == "zero":
            thr, kw = 0, dict(threshold_dist=0.0)
        else:
            thr, kw = 0, {}
        if shape.get("what") == "rejects":
            self.rejects(M, esp, basis, dm, points, nuc, Z, pci)
            return

        def body():
            calls.begin()
            with bind.patched((esp, "point_charge_integral", pci)):
                return esp.electrostatic_potential(basis, dm, points, nuc, Z, transform=U, **kw)

        fr = Frame(dm=dm, points=points, nuc=nuc, Z=Z)
        paths = M.paths(body)
        fr.check(M, "esp")
        ok = calls.every(lambda cs: len(cs) >= 1 and all(c[0] is basis and c[1] is points and c[3] is U for c in cs))
        M.true("esp/pre@point_charge_integral/args", ok, "basis, points, transform forwarded")
        if calls:
            q = calls[0][2]
            M.true("esp/pre@point_charge_integral/charges-shape", tuple(np.shape(q)) == (N,), str(np.shape(q)))
            for n in range(N):
                M.eq("esp/pre@point_charge_integral/unit-negative-charge" + tag((n,)), q[n], -1)
        sV, sdm, sZ = M.to_spec(V), M.to_spec(dm), M.to_spec(Z)
        spts, snuc = M.to_spec(points), M.to_spec(nuc)
        sthr = M.to_spec(thr) if (shape["thr"] == "pos" and not M.symbolic) else thr
        SF = M.SF
        dist = {}
        for n in range(N):
            for a in range(A):
                if N == 1 and a in co:
                    dist[n, a] = SF.num(0)
                else:
                    d2 = SF.num(0)
                    for x in range(3):
                        d2 = d2 + (spts[n, x] - snuc[a, x]) * (spts[n, x] - snuc[a, x])
                    dist[n, a] = SF.sqrt(d2)
        for k, p in enumerate(paths):
            pn = "esp/path%d" % k
            M.feasible(pn + "/feasible", p)
            M.true(pn + "/no-exception", p.exc is None, repr(p.exc))
            if p.exc is not None:
                continue
            out = p.outcome
            M.true(pn + "/shape", tuple(np.shape(out)) == (N,), str(np.shape(out)))
            for n in range(N):
                el = SF.num(0)
                for a_ in range(korb):
                    for b_ in range(korb):
                        el = el + sdm[a_, b_] * sV[a_, b_, n]
                for kept in itertools.product((True, False), repeat=A):
                    conds, nucpot, skip = [], SF.num(0), False
                    for a in range(A):
                        d = dist[n, a]
                        zero_d = (N == 1 and a in co)
                        conds.append(M.atom(d, ">=", sthr) if kept[a] else M.atom(d, "<", sthr))
                        if kept[a]:
                            if zero_d:
                                skip = True  # an infinite term: only the emptiness of the case is checked
                            else:
                                nucpot = nucpot + sZ[a] / d
                    cond = M.f_and(*conds)
                    name = "%s/out%s/kept=%s" % (pn, tag((n,)), "".join("1" if x else "0" for x in kept))
                    if skip:
                        M.implies(name + "/cannot-occur", p, M.f_not(cond), "a nucleus at distance 0 is kept only if thr = 0")
                    else:
                        M.eq_under(name, p, cond, out[n], nucpot - el)

    def rejects(self, M, esp, basis, dm, points, nuc, Z, pci):
        f = esp.electrostatic_potential
        with bind.patched((esp, "point_charge_integral", pci)):
            cases = {
                "dm-1d": lambda: f(basis, dm[0], points, nuc, Z),
                "dm-asymmetric": lambda: f(basis, _asym(M, dm.shape), points, nuc, Z),
                "dm-size": lambda: f(basis, sym_dm(M, dm.shape[0] + 1, "k"), points, nuc, Z),
                "nuc-coords-1d": lambda: f(basis, dm, points, nuc[0], Z),
                "charges-2d": lambda: f(basis, dm, points, nuc, Z[None, :]),
                "charges-count": lambda: f(basis, dm, points, nuc, M.vec("Z2", 2)),
                "threshold-type": lambda: f(basis, dm, points, nuc, Z, threshold_dist=None),
                "threshold-negative": lambda: f(basis, dm, points, nuc, Z, threshold_dist=-1.0),
                "charges-not-numeric": lambda: f(basis, dm, points, nuc, np.array(["x"])),
            }
            for name, fn in cases.items():
                err0 = np.geterr()
                M.raises("esp/rejects/" + name, fn, (TypeError, ValueError))
                M.true("esp/rejects/%s/errstate" % name, np.geterr() == err0, "numpy error state after the raising call: %s -> %s" % (err0, np.geterr()))
                np.seterr(**err0)


class ESPInline:
    """the same law with NOTHING replaced except the Boys function (so it does not depend on how
    electrostatic_potential organises its calls): with threshold 0 and no point on a nucleus,
        esp(basis, D, R, R_A, Z)[n] = sum_A Z_A / |R_n - R_A|  +  sum_ab D_ab * point_charge_integral(basis, R, ones)[a, b, n]
    (point_charge_integral carries the sign of the charge: unit positive charges give minus the electronic integrals),
    where point_charge_integral is the real routine, proved against the specification by the C03 contracts; with a
    transformation both sides use the transformed basis."""

    function = "gbasis.evals.electrostatic_potential.electrostatic_potential (inline: real point_charge_integral, kernels, assembly)"
    sparse = True

    def shapes(self, tier):
        out = [dict(types=["cartesian", "cartesian"], transform=None), dict(types=["spherical", "cartesian"], transform="rect"),
               dict(types=["cartesian", "cartesian"], transform="eye"), dict(types=["spherical", "cartesian"], transform=None, M=[1, 2])]
        if tier == "thorough":
            out += [dict(types=["spherical", "spherical"], transform="square"), dict(types=["cartesian", "spherical"], transform=None, nuc=2)]
        return out

    def run(self, shape, M):
        from .coulomb import boys_stub

        esp = M.mods["gbasis.evals.electrostatic_potential"]
        pc = M.mods["gbasis.integrals.point_charge"]
        types = shape["types"]
        Ms = shape.get("M", [1] * len(types))
        basis = build_shells(M, [dict(l=i, M=Ms[i], type=t) for i, t in enumerate(types)])
        ncont = sum(s.norm_cont.shape[0] * (s.num_cart if t == "cartesian" else s.num_sph) for s, t in zip(basis, types))
        tr = shape["transform"]
        if tr == "eye":
            U = M.array(np.array([[1 if i == j else 0 for j in range(ncont)] for i in range(ncont - 1)], dtype=object)) if M.symbolic else np.eye(ncont - 1, ncont)
        elif tr == "rect":
            U = M.vec("U", (ncont - 1, ncont))
        elif tr == "square":
            U = M.vec("U", (ncont, ncont))
        else:
            U = None
        korb = ncont if U is None else U.shape[0]
        dm = sym_dm(M, korb)
        A = shape.get("nuc", 1)
        points = M.vec("P", (1, 3))
        nuc = M.array(np.array([points[0] - M.vec("D%d" % a, 3) for a in range(A)], dtype=object))
        Z = M.vec("Z", A)
        boys = boys_stub(M)
        with bind.patched((pc.PointChargeIntegral, "boys_func", staticmethod(boys))):
            got = esp.electrostatic_potential(basis, dm, points, nuc, Z, transform=U, threshold_dist=0.0)
            ones = M.array(np.array([1], dtype=object)) if M.symbolic else np.array([1.0])
            V = pc.point_charge_integral(basis, points, ones, transform=U)
        M.true("esp_inline/shape", tuple(np.shape(got)) == (1,) and tuple(np.shape(V)) == (korb, korb, 1), "%s %s" % (np.shape(got), np.shape(V)))
        SF = M.SF
        sV, sdm, sZ, sp, sn = M.to_spec(V), M.to_spec(dm), M.to_spec(Z), M.to_spec(points), M.to_spec(nuc)
        tot = SF.num(0)
        for a in range(A):
            d2 = SF.num(0)
            for x in range(3):
                d2 = d2 + (sp[0, x] - sn[a, x]) * (sp[0, x] - sn[a, x])
            tot = tot + sZ[a] / SF.sqrt(d2)
        for i in range(korb):
            for j in range(korb):
                tot = tot + sdm[i, j] * sV[i, j, 0]
        M.eq("esp_inline/out", got[0], tot)
