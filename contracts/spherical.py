"""Contracts for C10: gbasis.spherical.generate_transformation and the default component orders.

The real functions are executed through the proxy with exact factorial/comb and exact radicals,
so every matrix entry is an exact algebraic number (an element of Q(sqrt 2, sqrt 3, ...)).
The postcondition is the *definition* of real regular solid harmonics by their properties (S7),
not a formula: for every l and every row
  - homogeneous of degree l (all Cartesian components sum to l),
  - harmonic: Laplacian of the row polynomial vanishes identically,
  - rows orthonormal under the exact overlap of unit-normalised Cartesian Gaussians of one shell,
  - C_m + i S_m = (x+iy)^m q(z, x^2+y^2) with q real and q(1,0) > 0,
  - rows in the documented default order; 'left' = transpose of 'right'; a '-' label negates that
    row only; label order and Cartesian order are honoured exactly; malformed arguments raise.
"""
import itertools
import random
from math import comb

import numpy as np

from engine import alg, fields
from engine import sym as S
from specs.gauss1d import dfact

from .common import cart_components, tag


def default_sph(l):
    if l == 1:
        return ("c1", "s1", "c0")
    return tuple(["s%d" % m for m in range(l, 0, -1)] + ["c%d" % m for m in range(l + 1)])


def _is_zero(M, x):
    if M.symbolic:
        return alg.v_equal(S.expand(S.lift(x)), alg.Value({}))
    return abs(x) < 1e-12


class Poly3:
    """polynomial in x,y,z with coefficients in the number field of the mode"""

    def __init__(self, terms=None):
        self.t = dict(terms or {})

    def add(self, key, c):
        self.t[key] = self.t[key] + c if key in self.t else c

    def laplacian(self):
        out = Poly3()
        for (a, b, c), v in self.t.items():
            if a >= 2:
                out.add((a - 2, b, c), v * (a * (a - 1)))
            if b >= 2:
                out.add((a, b - 2, c), v * (b * (b - 1)))
            if c >= 2:
                out.add((a, b, c - 2), v * (c * (c - 1)))
        return out


def xiy_pow_times_rho(m, t):
    """(x+iy)^m (x^2+y^2)^t = sum re[(a,b)] + i im[(a,b)], integer coefficients"""
    re, im = {}, {}
    for k in range(m + 1):
        c = comb(m, k)  # x^(m-k) (iy)^k
        ph = k % 4
        for s in range(t + 1):
            key = (m - k + 2 * (t - s), k + 2 * s)
            val = c * comb(t, s)
            if ph == 0:
                re[key] = re.get(key, 0) + val
            elif ph == 1:
                im[key] = im.get(key, 0) + val
            elif ph == 2:
                re[key] = re.get(key, 0) - val
            else:
                im[key] = im.get(key, 0) - val
    return re, im


class Harmonics:
    fp = True  # also sampled on the unmodified float64 code (bounded stand-in for rounding)
    function = "gbasis.spherical.generate_transformation"
    tol = 1e-10

    def shapes(self, tier):
        return [dict(l=l) for l in range(0, 11)]  # the whole finite space of the property (l = 10 has two-digit labels)

    def run(self, shape, M):
        sph = M.mods["gbasis.spherical"]
        cmod = M.mods["gbasis.contractions"]
        l = shape["l"]
        F = M.SF
        # default orders come from the shell object (the real properties)
        from .common import make_shell

        sh = make_shell(M, l, M.vec("A", 3), M.vec("d", (1, 1)), M.vec("a", 1, "pos"), norm_cont=M.vec("n", (1, (l + 1) * (l + 2) // 2), "pos"))
        cart = sh.angmom_components_cart
        labels = sh.angmom_components_sph
        M.true("harm/default-cart-order", [tuple(int(x) for x in r) for r in cart] == cart_components(l), "x descending, then y descending")
        M.true("harm/default-sph-order", tuple(labels) == default_sph(l), str(labels))
        M.true("harm/num_cart", sh.num_cart == (l + 1) * (l + 2) // 2 and sh.num_sph == 2 * l + 1, "")
        T = sph.generate_transformation(l, cart, labels, "left")
        TR = sph.generate_transformation(l, cart, labels, "right")
        ncart, nsph = len(cart), 2 * l + 1
        M.true("harm/shape", tuple(T.shape) == (nsph, ncart) and tuple(TR.shape) == (ncart, nsph), "%s %s" % (T.shape, TR.shape))
        T = M.to_spec(np.asarray(T)) if not M.symbolic else T
        TR = M.to_spec(np.asarray(TR)) if not M.symbolic else TR
        for mu in range(nsph):
            for c in range(ncart):
                M.eq("harm/left-is-transpose-of-right" + tag((mu, c)), T[mu, c], TR[c, mu])
        comps = [tuple(int(x) for x in r) for r in cart]
        M.true("harm/homogeneous", all(sum(c) == l for c in comps), "every component of degree l")
        # row polynomials: T[mu,c] * (norm of unit-normalised Cartesian, up to the common factor)
        inv = [F.pow(F.num(dfact(2 * a - 1) * dfact(2 * b - 1) * dfact(2 * c - 1)), -0.5) if not M.symbolic
               else S.lift(dfact(2 * a - 1) * dfact(2 * b - 1) * dfact(2 * c - 1)) ** -0.5 for a, b, c in comps]
        rows = []
        for mu in range(nsph):
            p = Poly3()
            for c, comp in enumerate(comps):
                p.add(comp, T[mu, c] * inv[c])
            rows.append(p)
        # harmonic
        for mu in range(nsph):
            lap = rows[mu].laplacian()
            for key, v in lap.t.items():
                M.eq("harm/laplacian[%s]%s" % (labels[mu], tag(key)), v, 0)
        # orthonormal under the exact within-shell overlap of unit-normalised Cartesians
        Sov = {}
        for i, ci in enumerate(comps):
            for j, cj in enumerate(comps):
                if all((a + b) % 2 == 0 for a, b in zip(ci, cj)):
                    num = 1
                    for a, b in zip(ci, cj):
                        num *= dfact(a + b - 1)
                    Sov[i, j] = inv[i] * inv[j] * num
        for mu in range(nsph):
            TS = {}
            for (i, j), s in Sov.items():
                TS[j] = TS[j] + T[mu, i] * s if j in TS else T[mu, i] * s
            for nu in range(mu, nsph):
                tot = F.num(0)
                for j, v in TS.items():
                    tot = tot + v * T[nu, j]
                M.eq("harm/orthonormal[%s,%s]" % (labels[mu], labels[nu]), tot, 1 if mu == nu else 0)
        # phase convention
        pos = {lab: i for i, lab in enumerate(labels)}
        for m in range(0, l + 1):
            pc = rows[pos["c%d" % m]]
            ps = rows[pos["s%d" % m]] if m else Poly3()
            expc, exps_ = Poly3(), Poly3()
            q0 = None
            for t in range(0, (l - m) // 2 + 1):
                zpow = l - m - 2 * t
                qt = pc.t.get((m + 2 * t, 0, zpow), F.num(0))
                if t == 0:
                    q0 = qt
                re, im = xiy_pow_times_rho(m, t)
                for (a, b), c in re.items():
                    expc.add((a, b, zpow), qt * c)
                for (a, b), c in im.items():
                    exps_.add((a, b, zpow), qt * c)
            for key in set(pc.t) | set(expc.t):
                M.eq("harm/phase-cos[m=%d]%s" % (m, tag(key)), pc.t.get(key, F.num(0)), expc.t.get(key, F.num(0)))
            for key in set(ps.t) | set(exps_.t):
                M.eq("harm/phase-sin[m=%d]%s" % (m, tag(key)), ps.t.get(key, F.num(0)), exps_.t.get(key, F.num(0)))
            # q(1,0) > 0: exact non-zero test, then sign at 50 digits
            if M.symbolic:
                v = S.expand(S.lift(q0))
                nz = not alg.v_equal(v, alg.Value({}))
                num = alg.evalv(v, {}, fields.MpField({}, 50)) if nz else 0
                M.true("harm/positive-near-pole[m=%d]" % m, nz and num > 0, "q(1,0) = %s" % num, backend="polyid+mp50")
            else:
                M.true("harm/positive-near-pole[m=%d]" % m, q0 > 0, "q(1,0) = %s" % q0)


class Conventions:
    """caller-specified orders / signs are honoured exactly; invalid conventions are rejected"""

    function = "gbasis.spherical.generate_transformation"

    def shapes(self, tier):
        out = []
        for l in (0, 1, 2):
            out.append(dict(l=l, what="all-cart-perms"))
            out.append(dict(l=l, what="all-label-perms-signs"))
        out.append(dict(l=3, what="cart-transpositions"))
        out.append(dict(l=3, what="label-random", n=20 if tier == "quick" else 200))
        out.append(dict(l=3, what="cart-random", n=20 if tier == "quick" else 1000))
        for l in (4, 5, 10) + ((6, 8) if tier == "thorough" else ()):
            out.append(dict(l=l, what="cart-random", n=5 if (l < 10 or tier == "thorough") else 2))
            out.append(dict(l=l, what="label-random", n=5 if (l < 10 or tier == "thorough") else 2))
        # both conventions at once: a permuted Cartesian order TOGETHER with permuted / negated labels, from either side
        for l in (1, 2, 3, 4) + ((5, 6, 10) if tier == "thorough" else ()):
            out.append(dict(l=l, what="joint-random", n=(12 if l <= 2 else 6) if tier == "quick" else 40))
        out.append(dict(l=2, what="rejects"))
        return out

    def run(self, shape, M):
        sph = M.mods["gbasis.spherical"]
        l, what = shape["l"], shape["what"]
        gt = sph.generate_transformation
        cart0 = np.array(cart_components(l))
        lab0 = default_sph(l)
        base = gt(l, cart0, lab0, "left")
        ncart, nsph = len(cart0), 2 * l + 1
        rng = random.Random(1234 + l)

        def check_cart(perm, name):
            T = gt(l, cart0[list(perm)], lab0, "left")
            for mu in range(nsph):
                for c in range(ncart):
                    M.eq("conv/%s%s" % (name, tag((mu, c))), T[mu, c], base[mu, perm[c]])

        def check_labels(perm, signs, name):
            labs = [("-" if signs[i] < 0 else "") + lab0[perm[i]] for i in range(nsph)]
            T = gt(l, cart0, tuple(labs), "left")
            T2 = gt(l, cart0, list(labs), "right")
            for mu in range(nsph):
                for c in range(ncart):
                    M.eq("conv/%s%s" % (name, tag((mu, c))), T[mu, c], base[perm[mu], c] * signs[mu])
                    M.eq("conv/%s/right%s" % (name, tag((mu, c))), T2[c, mu], base[perm[mu], c] * signs[mu])

        if what == "all-cart-perms":
            for k, perm in enumerate(itertools.permutations(range(ncart))):
                check_cart(perm, "cart-perm%d" % k)
        elif what == "cart-transpositions":
            for i in range(ncart):
                for j in range(i + 1, ncart):
                    perm = list(range(ncart))
                    perm[i], perm[j] = perm[j], perm[i]
                    check_cart(perm, "cart-swap%d-%d" % (i, j))
        elif what == "cart-random":
            for k in range(shape["n"]):
                perm = list(range(ncart))
                rng.shuffle(perm)
                check_cart(perm, "cart-rand%d" % k)
        elif what == "all-label-perms-signs":
            for k, perm in enumerate(itertools.permutations(range(nsph))):
                for s, signs in enumerate(itertools.product((1, -1), repeat=nsph)):
                    check_labels(perm, signs, "lab%d.%d" % (k, s))
        elif what == "label-random":
            for k in range(shape["n"]):
                perm = list(range(nsph))
                rng.shuffle(perm)
                signs = [rng.choice((1, -1)) for _ in range(nsph)]
                check_labels(perm, signs, "labrand%d" % k)
        elif what == "joint-random":
            for k in range(shape["n"]):
                cperm = list(range(ncart))
                rng.shuffle(cperm)
                lperm = list(range(nsph))
                rng.shuffle(lperm)
                signs = [rng.choice((1, -1)) for _ in range(nsph)]
                if k == 0:
                    signs = [-1] * nsph  # every label negated
                labs = tuple(("-" if signs[i] < 0 else "") + lab0[lperm[i]] for i in range(nsph))
                T = gt(l, cart0[cperm], labs, "left")
                T2 = gt(l, cart0[cperm], labs, "right")
                for mu in range(nsph):
                    for c in range(ncart):
                        M.eq("conv/joint%d%s" % (k, tag((mu, c))), T[mu, c], base[lperm[mu], cperm[c]] * signs[mu])
                        M.eq("conv/joint%d/right%s" % (k, tag((mu, c))), T2[c, mu], base[lperm[mu], cperm[c]] * signs[mu])
        elif what == "rejects":
            E = (TypeError, ValueError)
            M.raises("conv/rejects/missing-label", lambda: gt(2, cart0, ("s2", "s1", "c0", "c1"), "left"), ValueError)
            M.raises("conv/rejects/duplicate-label", lambda: gt(2, cart0, ("s2", "s1", "c0", "c1", "c1"), "left"), ValueError)
            M.raises("conv/rejects/foreign-label", lambda: gt(2, cart0, ("s2", "s1", "c0", "c1", "c3"), "left"), ValueError)
            M.raises("conv/rejects/wrong-l-labels", lambda: gt(2, cart0, default_sph(3), "left"), ValueError)
            M.raises("conv/rejects/labels-not-sequence", lambda: gt(2, cart0, "s2s1c0c1c2", "left"), TypeError)
            M.raises("conv/rejects/labels-not-str", lambda: gt(2, cart0, (2, 1, 0, -1, -2), "left"), TypeError)
            M.raises("conv/rejects/apply_from", lambda: gt(2, cart0, lab0, "top"), ValueError)
            M.raises("conv/rejects/apply_from-type", lambda: gt(2, cart0, lab0, 0), TypeError)
            M.raises("conv/rejects/cart-shape", lambda: gt(2, cart0[:5], lab0, "left"), ValueError)
            M.raises("conv/rejects/cart-sum", lambda: gt(2, cart0 + np.array([1, 0, 0]), lab0, "left"), ValueError)
            M.raises("conv/rejects/cart-type", lambda: gt(2, cart0.tolist(), lab0, "left"), TypeError)
            M.raises("conv/rejects/angmom-negative", lambda: gt(-1, cart0, lab0, "left"), ValueError)
            M.raises("conv/rejects/angmom-type", lambda: gt(2.0, cart0, lab0, "left"), TypeError)
            # a repeated Cartesian component (not a permutation of the shell's components)
            dup = cart0.copy()
            dup[1] = dup[0]
            M.raises("conv/rejects/cart-duplicate", lambda: gt(2, dup, lab0, "left"), E + (KeyError,))


class AllCartesianOrdersL3:
    """EXHAUSTIVE over the finite space, evaluated in float64 (labelled bounded, not counted as proved):
    every one of the 10! orderings of the Cartesian components of an f shell gives the default matrix with its
    columns permuted accordingly (bit-for-bit: the same arithmetic, only the placement differs).  The exact
    properties of the default matrix itself are proved in Harmonics."""

    function = "gbasis.spherical.generate_transformation (all Cartesian orders, l = 3)"
    fp = True
    fp_only = True
    bounded = True
    fp_nsamp = (1, 1)

    def fp_shapes(self, tier):
        # quick: a slice of the space; thorough: all 10! = 3 628 800 orderings in 64 blocks
        nblocks = 64
        return [dict(block=b, nblocks=nblocks, stride=(200 if tier == "quick" else 1)) for b in range(nblocks if tier == "thorough" else 4)]

    shapes = fp_shapes

    def run(self, shape, M):
        if M.symbolic:
            return
        gt = M.mods["gbasis.spherical"].generate_transformation
        cart0 = np.array(cart_components(3))
        lab0 = default_sph(3)
        base = gt(3, cart0, lab0, "left")
        n = 0
        bad = None
        for k, perm in enumerate(itertools.permutations(range(10))):
            if k % shape["nblocks"] != shape["block"] or (k // shape["nblocks"]) % shape["stride"]:
                continue
            p = list(perm)
            T = gt(3, cart0[p], lab0, "left")
            n += 1
            if not np.array_equal(T, base[:, p]):
                bad = p
                break
        M.true("conv/all-cartesian-orders-l3/block%d" % shape["block"], bad is None, "%d orderings checked%s" % (n, "" if bad is None else "; first failing order %s" % bad))
