"""Contracts for C06 (gbasis/evals/density.py).  evaluate_basis / evaluate_deriv_basis are replaced
by their contracts (C05, C09): opaque orbital-derivative atoms Phi^(o)[a, n], one family per order
triple, consistent between calls; the density matrix is symbolic and symmetric."""
import itertools
from math import comb

import numpy as np

from engine import bind

from .assembly import build_shells
from .common import Frame, PathLog, tag


class OrbStub:
    def __init__(self, M, nb, npts, requested="general"):
        self.M, self.nb, self.npts = M, nb, npts
        self.fam = {}
        self.calls = []
        self.requested = requested

    def phi(self, o):
        o = tuple(int(x) for x in o)
        if o not in self.fam:
            self.fam[o] = self.M.vec("Phi%d%d%d" % o, (self.nb, self.npts), "opq")
        return self.fam[o]

    def evaluate_basis(self, basis, points, transform=None):
        self.calls.append(("eval", basis, points, (0, 0, 0), transform, None))
        return self.phi((0, 0, 0)).copy()

    def evaluate_deriv_basis(self, basis, points, orders, transform=None, deriv_type="general"):
        self.calls.append(("deriv", basis, points, tuple(int(x) for x in orders), transform, deriv_type))
        return self.phi(orders).copy()

    def check_calls(self, M, name, basis, points, transform):
        ok = all(c[1] is basis and c[2] is points and c[4] is transform for c in self.calls)
        M.true(name + "/pre@evaluate_basis/args", ok and len(self.calls) > 0, "basis, points and transform forwarded unchanged to every orbital evaluation")
        # either back-end gives the same numbers wherever both apply (C05); the callee's precondition is
        # that 'direct' is never asked for an order above 2 and that the name is a known one
        bad = [c for c in self.calls if c[0] == "deriv" and (c[5] not in ("general", "direct") or (max(c[3]) > 2 and c[5] != "general"))]
        M.true(name + "/pre@evaluate_deriv_basis/deriv_type", not bad, "known back-end; 'general' above order 2: %s" % [(c[3], c[5]) for c in bad][:3])


def sym_dm(M, nb, name="g"):
    arr = np.empty((nb, nb), dtype=object)
    for a in range(nb):
        for b in range(a, nb):
            arr[a, b] = arr[b, a] = M.real("%s_%d_%d" % (name, a, b))
    out = M.array(arr)
    if M.kind == "float" and nb > 1:
        # natively: symmetric as the library itself demands (np.allclose), not bit-for-bit -- what a
        # density matrix computed as C n C^T looks like
        out = out.copy()
        out[0, 1] += 3e-13 * (1.0 + abs(out[0, 1]))
    return out


def D(M, dm, p1, p2, n):
    """sum_ab gamma_ab Phi1[a,n] Phi2[b,n]"""
    tot = M.SF.num(0)
    nb = dm.shape[0]
    for a in range(nb):
        for b in range(nb):
            tot = tot + dm[a, b] * p1[a, n] * p2[b, n]
    return tot


def leibniz(M, dm, stub, orders, n):
    tot = M.SF.num(0)
    ox, oy, oz = orders
    for lx in range(ox + 1):
        for ly in range(oy + 1):
            for lz in range(oz + 1):
                c = comb(ox, lx) * comb(oy, ly) * comb(oz, lz)
                tot = tot + D(M, dm, M.to_spec(stub.phi((lx, ly, lz))), M.to_spec(stub.phi((ox - lx, oy - ly, oz - lz))), n) * c
    return tot


E3 = [(1, 0, 0), (0, 1, 0), (0, 0, 1)]


def _add(a, b):
    return tuple(x + y for x, y in zip(a, b))


class DensityBase:
    sparse = True
    nb, npts = 2, 1

    def setup(self, M, shape):
        self.nb = shape.get("nb", 2)
        self.npts = shape.get("npts", 1)
        dens = M.mods["gbasis.evals.density"]
        stub = OrbStub(M, self.nb, self.npts, shape.get("deriv_type", "general"))
        basis = build_shells(M, [dict(l=0, M=1)])
        points = M.vec("R", (self.npts, 3))
        dm = sym_dm(M, self.nb)
        transform = M.vec("U", (self.nb, 1)) if shape.get("transform") else None
        return dens, stub, basis, points, dm, transform

    def patched(self, dens, stub, *more):
        return bind.patched((dens, "evaluate_basis", stub.evaluate_basis), (dens, "evaluate_deriv_basis", stub.evaluate_deriv_basis), *more)


class DensityFromOrbs(DensityBase):
    """evaluate_density_using_evaluated_orbs(gamma, Phi)[n] = sum_ab gamma_ab Phi_a(n) Phi_b(n); validation"""

    fp = True  # cross-check: the same contract on the unmodified float64 code at sampled inputs (bounded)
    fp_nsamp = (1, 3)

    def fp_shapes(self, tier):
        sh = self.shapes(tier)
        step = max(1, len(sh) // (6 if tier == "quick" else 24))
        return sh[::step][:(6 if tier == "quick" else 24)]


    function = "gbasis.evals.density.evaluate_density_using_evaluated_orbs"

    def shapes(self, tier):
        return [dict(nb=1, npts=1), dict(nb=2, npts=2), dict(nb=3, npts=1), dict(nb=2, npts=1, psd=True)]

    def run(self, shape, M):
        dens, stub, basis, points, dm, transform = self.setup(M, shape)
        nb, npts = self.nb, self.npts
        if shape.get("psd"):
            Lm = M.vec("L", (nb, nb))
            dm = M.array(np.array(Lm, dtype=object).dot(np.array(Lm, dtype=object).T))
        phi = stub.phi((0, 0, 0))
        fr = Frame(dm=dm, phi=phi)
        out = dens.evaluate_density_using_evaluated_orbs(dm, phi)
        fr.check(M, "density_from_orbs", out)
        out = M.shaped("density_from_orbs/shape", out, (npts,))
        sdm, sphi = M.to_spec(dm), M.to_spec(phi)
        for n in range(npts):
            M.eq("density_from_orbs/out" + tag((n,)), out[n], D(M, sdm, sphi, sphi, n))
            if shape.get("psd"):
                sL = M.to_spec(Lm)
                sos = M.SF.num(0)
                for r in range(nb):
                    t = M.SF.num(0)
                    for a in range(nb):
                        t = t + sL[a, r] * sphi[a, n]
                    sos = sos + t * t
                M.eq("density_from_orbs/psd-sum-of-squares" + tag((n,)), out[n], sos)
        f = dens.evaluate_density_using_evaluated_orbs
        if nb == 2 and not shape.get("psd"):
            asym = M.vec("h", (nb, nb))
            asym[1, 0] = asym[0, 1] + M.pos("gap")  # asymmetric for every value of the symbols, not merely generically
            M.raises("density_from_orbs/rejects/asymmetric", lambda: f(asym, phi), ValueError)
            M.raises("density_from_orbs/rejects/not-square", lambda: f(M.vec("h2", (nb, nb + 1)), phi), ValueError)
            M.raises("density_from_orbs/rejects/size", lambda: f(sym_dm(M, nb + 1, "k"), phi), ValueError)
            M.raises("density_from_orbs/rejects/dm-1d", lambda: f(dm[0], phi), TypeError)
            M.raises("density_from_orbs/rejects/orbs-1d", lambda: f(dm, phi[:, 0]), TypeError)
            M.raises("density_from_orbs/rejects/list", lambda: f([[1.0]], phi), TypeError)


def threshold_rule(M, name, paths, values, thr, is_error=ValueError):
    """the rule of the property for the returned quantity v (per point):
       v >= 0 -> v ;  -thr <= v < 0 -> 0 ;  v < -thr -> raises"""
    for k, p in enumerate(paths):
        pn = "%s/path%d" % (name, k)
        M.feasible(pn + "/feasible", p)
        vs = values(p)
        if vs is None:
            M.true(pn + "/unexpected-exception", False, repr(p.exc))
            continue
        some_below = M.f_or(*[M.atom(v, "<", -thr) for v in vs])
        if p.exc is not None:
            M.true(pn + "/raises-ValueError", isinstance(p.exc, is_error), repr(p.exc))
            M.implies(pn + "/raises-only-if-below-minus-threshold", p, some_below, "an error requires a value < -threshold")
        else:
            M.implies(pn + "/returns-only-if-none-below-minus-threshold", p, M.f_not(some_below), "a value < -threshold must raise")
            out = p.outcome
            M.true(pn + "/shape", tuple(np.shape(out)) == (len(vs),), str(np.shape(out)))
            for n, v in enumerate(vs):
                M.implies(pn + "/nonnegative-returned-unchanged" + tag((n,)), p, M.f_or(M.atom(v, "<", 0), M.atom(out[n], "==", v)))
                M.implies(pn + "/small-negative-returned-as-zero" + tag((n,)), p, M.f_or(M.atom(v, ">=", 0), M.atom(out[n], "==", 0)))


class DensityThreshold(DensityBase):
    """evaluate_density: forwards to evaluate_basis / evaluate_density_using_evaluated_orbs (replaced by
    its contract: opaque rho_n) and applies the threshold rule to the returned quantity"""

    function = "gbasis.evals.density.evaluate_density"

    def shapes(self, tier):
        return [dict(npts=1), dict(npts=2), dict(npts=2, transform=True)] + ([dict(npts=3)] if tier == "thorough" else [])

    def run(self, shape, M):
        dens, stub, basis, points, dm, transform = self.setup(M, shape)
        rho = M.vec("rho", (self.npts,), "opq")
        thr = M.pos("thr")
        seen = PathLog()

        def from_orbs(dm_, orb):
            seen.append((dm_, orb))
            return rho.copy()

        def body():
            seen.begin()  # (stub.calls accumulates over the paths: check_calls quantifies over every call)
            with self.patched(dens, stub, (dens, "evaluate_density_using_evaluated_orbs", from_orbs)):
                return dens.evaluate_density(dm, basis, points, transform=transform, threshold=M.scalar(thr))

        fr = Frame(dm=dm, points=points, rho=rho)
        paths = M.paths(body)
        fr.check(M, "density/all-paths")
        stub.check_calls(M, "density", basis, points, transform)
        M.true("density/pre@from_orbs", seen.every(lambda cs: len(cs) >= 1 and all(c[0] is dm for c in cs)), "density matrix forwarded (on every path)")
        srho, sthr = M.to_spec(rho), M.to_spec(thr) if not M.symbolic else thr
        threshold_rule(M, "density/threshold", paths, lambda p: [srho[n] for n in range(self.npts)], sthr)


class ReducedDM(DensityBase):
    """evaluate_deriv_reduced_density_matrix(o1, o2)[n] = sum_ab gamma_ab Phi^{o1}_a(n) Phi^{o2}_b(n)"""

    fp = True  # cross-check: the same contract on the unmodified float64 code at sampled inputs (bounded)
    fp_nsamp = (1, 3)

    def fp_shapes(self, tier):
        sh = self.shapes(tier)
        step = max(1, len(sh) // (6 if tier == "quick" else 24))
        return sh[::step][:(6 if tier == "quick" else 24)]


    function = "gbasis.evals.density.evaluate_deriv_reduced_density_matrix"

    def shapes(self, tier):
        pairs = [((0, 0, 0), (0, 0, 0)), ((1, 0, 0), (0, 0, 1)), ((2, 1, 0), (2, 1, 0)), ((0, 3, 0), (1, 0, 1)), ((0, 0, 0), (4, 4, 4))]
        out = [dict(pairs=pairs, nb=2, npts=2, deriv_type="general"), dict(pairs=pairs[:3], nb=3, npts=1, deriv_type="direct", transform=True)]
        return out

    def run(self, shape, M):
        dens, stub, basis, points, dm, transform = self.setup(M, shape)
        sdm = M.to_spec(dm)
        for o1, o2 in shape["pairs"]:
            if shape["deriv_type"] == "direct" and max(o1 + o2) > 2:
                continue
            del stub.calls[:]
            a1, a2 = np.array(o1), np.array(o2)
            fr = Frame(dm=dm, points=points, o1=a1, o2=a2)
            with self.patched(dens, stub):
                out = dens.evaluate_deriv_reduced_density_matrix(a1, a2, dm, basis, points, transform=transform, deriv_type=shape["deriv_type"])
            name = "reduced_dm%s%s" % (tag(o1), tag(o2))
            fr.check(M, name, out)
            stub.check_calls(M, name, basis, points, transform)
            for n in range(self.npts):
                M.eq(name + "/out" + tag((n,)), out[n], D(M, sdm, M.to_spec(stub.phi(o1)), M.to_spec(stub.phi(o2)), n))


class DerivDensity(DensityBase):
    """evaluate_deriv_density(orders)[n] = full Leibniz expansion of the derivative of
    sum_ab gamma_ab Phi_a Phi_b (the l_x shortcut with its factor 2 must reproduce it)"""

    fp = True  # cross-check: the same contract on the unmodified float64 code at sampled inputs (bounded)
    fp_nsamp = (1, 3)

    def fp_shapes(self, tier):
        sh = self.shapes(tier)
        step = max(1, len(sh) // (6 if tier == "quick" else 24))
        return sh[::step][:(6 if tier == "quick" else 24)]


    function = "gbasis.evals.density.evaluate_deriv_density"

    def shapes(self, tier):
        triples = list(itertools.product(range(5), repeat=3))
        out = []
        size = 25
        for i in range(0, len(triples), size):
            out.append(dict(orders=triples[i:i + size], deriv_type="general"))
        small = [t for t in triples if max(t) <= 3]
        out.append(dict(orders=small[::3], deriv_type="direct"))
        out.append(dict(orders=[(1, 0, 2), (4, 0, 0), (3, 3, 3)], deriv_type="general", nb=3, npts=2, transform=True))
        return out

    def run(self, shape, M):
        dens, stub, basis, points, dm, transform = self.setup(M, shape)
        sdm = M.to_spec(dm)
        for o in shape["orders"]:
            del stub.calls[:]
            arr = np.array(o)
            fr = Frame(dm=dm, points=points, orders=arr)
            with self.patched(dens, stub):
                out = dens.evaluate_deriv_density(arr, dm, basis, points, transform=transform, deriv_type=shape["deriv_type"])
            name = "deriv_density" + tag(o)
            fr.check(M, name, out)
            stub.check_calls(M, name, basis, points, transform)
            M.true(name + "/shape", tuple(out.shape) == (self.npts,), str(out.shape))
            for n in range(self.npts):
                M.eq(name + "/out" + tag((n,)), out[n], leibniz(M, sdm, stub, o, n))


class GradLapHess(DensityBase):
    """gradient, Laplacian, Hessian (all nine entries) and the relations between them"""

    fp = True  # cross-check: the same contract on the unmodified float64 code at sampled inputs (bounded)
    fp_nsamp = (1, 3)

    def fp_shapes(self, tier):
        sh = self.shapes(tier)
        step = max(1, len(sh) // (6 if tier == "quick" else 24))
        return sh[::step][:(6 if tier == "quick" else 24)]


    function = "gbasis.evals.density.evaluate_density_gradient / _laplacian / _hessian"

    def shapes(self, tier):
        return [dict(deriv_type=d, nb=nb, npts=npts, transform=t) for d in ("general", "direct")
                for nb, npts, t in ((2, 1, False), (3, 2, True))]

    def run(self, shape, M):
        dens, stub, basis, points, dm, transform = self.setup(M, shape)
        sdm = M.to_spec(dm)
        dt = shape["deriv_type"]
        res = {}
        for fname in ("evaluate_density_gradient", "evaluate_density_laplacian", "evaluate_density_hessian"):
            del stub.calls[:]
            fr = Frame(dm=dm, points=points)
            with self.patched(dens, stub):
                res[fname] = getattr(dens, fname)(dm, basis, points, transform=transform, deriv_type=dt)
            fr.check(M, fname, res[fname])
            stub.check_calls(M, fname, basis, points, transform)
        g, lap, h = res["evaluate_density_gradient"], res["evaluate_density_laplacian"], res["evaluate_density_hessian"]
        N = self.npts
        g = M.shaped("gradient/shape", g, (N, 3))
        lap = M.shaped("laplacian/shape", lap, (N,))
        h = M.shaped("hessian/shape", h, (N, 3, 3))
        for n in range(N):
            tr = M.SF.num(0)
            for i in range(3):
                M.eq("gradient/out" + tag((n, i)), g[n, i], leibniz(M, sdm, stub, E3[i], n))
                for j in range(3):
                    M.eq("hessian/out" + tag((n, i, j)), h[n, i, j], leibniz(M, sdm, stub, _add(E3[i], E3[j]), n))
                    M.eq("hessian/symmetric" + tag((n, i, j)), h[n, i, j], h[n, j, i])
                tr = tr + M.to_spec(h)[n, i, i] if not M.symbolic else tr + h[n, i, i]
            lapspec = M.SF.num(0)
            for i in range(3):
                lapspec = lapspec + leibniz(M, sdm, stub, _add(E3[i], E3[i]), n)
            M.eq("laplacian/out" + tag((n,)), lap[n], lapspec)
            M.eq("hessian/trace-is-laplacian" + tag((n,)), tr, lap[n] if M.symbolic else M.to_spec(lap)[n])


class KineticDensity(DensityBase):
    """positive-definite kinetic density = 1/2 sum_i sum_ab gamma_ab dPhi_a/dx_i dPhi_b/dx_i with the
    threshold rule applied to the returned quantity; general = posdef + alpha * Laplacian"""

    function = "gbasis.evals.density.evaluate_posdef_kinetic_energy_density / evaluate_general_kinetic_energy_density"

    def shapes(self, tier):
        return [dict(what="threshold", npts=1), dict(what="threshold", npts=2, transform=True), dict(what="general", nb=2, npts=1, alpha="sym"),
                dict(what="general", nb=2, npts=2, alpha="zero"), dict(what="general", nb=2, npts=1, alpha="sym", transform=True),
                dict(what="general", nb=2, npts=1, alpha="zero", transform=True), dict(what="general-rejects")]

    def run(self, shape, M):
        dens, stub, basis, points, dm, transform = self.setup(M, shape)
        sdm = M.to_spec(dm)
        what = shape["what"]
        N = self.npts
        half = M.SF.num(1) / 2

        def kspec(n):
            t = M.SF.num(0)
            for e in E3:
                p = M.to_spec(stub.phi(e))
                t = t + D(M, sdm, p, p, n)
            return t * half

        if what == "value":
            # PSD-like instance is not assumed: use a huge threshold so that the rule cannot trigger? no:
            # the value identity is checked on every path under its path condition
            thr = M.pos("thr")

            def body():
                del stub.calls[:]
                with self.patched(dens, stub):
                    return dens.evaluate_posdef_kinetic_energy_density(dm, basis, points, transform=transform, deriv_type=shape["deriv_type"], threshold=M.scalar(thr))

            paths = M.paths(body)
            stub.check_calls(M, "posdef_ked", basis, points, transform)
            vals = [kspec(n) for n in range(N)]
            threshold_rule(M, "posdef_ked/value", paths, lambda p: vals, M.to_spec(thr) if not M.symbolic else thr)
        elif what == "threshold":
            tau = {e: M.vec("tau%d%d%d" % e, (N,), "opq") for e in E3}
            thr = M.pos("thr")

            calls = PathLog()

            def rdm(o1, o2, dm_, basis_, points_, transform=None, deriv_type="general"):
                calls.append((tuple(int(x) for x in o1), tuple(int(x) for x in o2), dm_, basis_, points_, transform, deriv_type))
                return tau[tuple(int(x) for x in o1)].copy()

            def body():
                calls.begin()
                with bind.patched((dens, "evaluate_deriv_reduced_density_matrix", rdm)):
                    return dens.evaluate_posdef_kinetic_energy_density(dm, basis, points, transform=transform, deriv_type="direct",
                                                                       threshold=M.scalar(thr))

            fr = Frame(dm=dm, points=points, **{"tau%d" % i: tau[e] for i, e in enumerate(E3)})
            paths = M.paths(body)
            fr.check(M, "posdef_ked/all-paths")
            M.true("posdef_ked/pre@reduced_dm", calls.every(lambda cs: sorted(c[0] for c in cs) == sorted(E3) and all(c[0] == c[1] and c[2] is dm and c[3] is basis
                   and c[4] is points and c[5] is transform and c[6] == "direct" for c in cs)),
                   "one call per axis with equal first-derivative orders; density matrix, basis, points, transform, back-end forwarded")
            st = {e: M.to_spec(tau[e]) for e in E3}
            vals = [(st[E3[0]][n] + st[E3[1]][n] + st[E3[2]][n]) * half for n in range(N)]
            threshold_rule(M, "posdef_ked/threshold", paths, lambda p: vals, M.to_spec(thr) if not M.symbolic else thr)
        elif what == "general":
            kin = M.vec("kin", (N,), "opq")
            lap = M.vec("lap", (N,), "opq")
            alpha = M.real("alpha") if shape["alpha"] == "sym" else 0
            calls = []

            def posdef(dm_, basis_, points_, transform=None, deriv_type="general", **kw):
                calls.append(("k", dm_, basis_, points_, transform, deriv_type, kw))
                return kin.copy()

            def lapl(dm_, basis_, points_, transform=None, deriv_type="general"):
                calls.append(("l", dm_, basis_, points_, transform, deriv_type, {}))
                return lap.copy()

            def body():  # `calls` accumulates over all explored paths: the callee preconditions hold on each of them
                with bind.patched((dens, "evaluate_posdef_kinetic_energy_density", posdef), (dens, "evaluate_density_laplacian", lapl)):
                    return dens.evaluate_general_kinetic_energy_density(dm, basis, points, M.scalar(alpha) if shape["alpha"] == "sym" else 0,
                                                                        transform=transform, deriv_type="direct")

            paths = M.paths(body)
            skin, slap = M.to_spec(kin), M.to_spec(lap)
            sal = M.to_spec(alpha) if (shape["alpha"] == "sym" and not M.symbolic) else alpha
            for k, p in enumerate(paths):
                M.true("general_ked/path%d/no-exception" % k, p.exc is None, repr(p.exc))
                if p.exc is not None:
                    continue
                for n in range(N):
                    M.implies("general_ked/path%d/out%s" % (k, tag((n,))), p, M.atom(p.outcome[n], "==", skin[n] + slap[n] * sal))
            M.true("general_ked/pre@callees", all(c[1] is dm and c[2] is basis and c[3] is points and c[4] is transform and c[5] == "direct" for c in calls)
                   and len(calls) >= len(paths), "arguments, transform and back-end forwarded (every call on every path)")
        else:
            with self.patched(dens, stub):
                M.raises("general_ked/rejects/alpha-type", lambda: dens.evaluate_general_kinetic_energy_density(dm, basis, points, "1"), TypeError)
                M.raises("general_ked/rejects/alpha-none", lambda: dens.evaluate_general_kinetic_energy_density(dm, basis, points, None), TypeError)


class ThresholdAnyN(DensityBase):
    """UNBOUNDED in the number of points: numpy's `min` is replaced by its contract (an opaque value m with
    m <= every element), two generic elements v0, v1 stand for any two of the N values; the rule
        v >= 0 -> v ;  -thr <= v < 0 -> 0 ;  some v < -thr (i.e. m < -thr) -> raises
    is then decided for the returned quantity of evaluate_density and evaluate_posdef_kinetic_energy_density
    independently of N."""

    function = "gbasis.evals.density.evaluate_density / evaluate_posdef_kinetic_energy_density (any number of points)"

    def shapes(self, tier):
        return [dict(what="density"), dict(what="posdef")]

    def run(self, shape, M):
        dens, stub, basis, points, dm, transform = self.setup(M, dict(npts=2))
        thr = M.pos("thr")
        mval = M.opq("minimum")
        half = M.SF.num(1) / 2
        if shape["what"] == "density":
            vals_code = M.vec("rho", (2,), "opq")
            factor = 1

            def inner(dm_, orb):
                return vals_code.copy()

            patches = [(dens, "evaluate_density_using_evaluated_orbs", inner)]

            def call():
                return dens.evaluate_density(dm, basis, points, threshold=M.scalar(thr))
        else:
            tau = {e: M.vec("tau%d%d%d" % e, (2,), "opq") for e in E3}
            factor = half

            def rdm(o1, o2, dm_, basis_, points_, transform=None, deriv_type="general"):
                return tau[tuple(int(x) for x in o1)].copy()

            patches = [(dens, "evaluate_deriv_reduced_density_matrix", rdm)]

            def call():
                return dens.evaluate_posdef_kinetic_energy_density(dm, basis, points, threshold=M.scalar(thr))

        seen = PathLog()

        def min_contract(arr, *a, **k):
            seen.append(arr)
            return mval

        def body():
            seen.begin()
            with self.patched(dens, stub, *patches), bind.patched((bind.PROXY, "min", min_contract), (bind.PROXY, "amin", min_contract)) if M.symbolic else _np_min_patch(dens, min_contract):
                return call()

        # the returned quantity per element, and the quantity numpy's min was asked about
        if shape["what"] == "density":
            vs = [M.to_spec(vals_code)[n] for n in range(2)]
        else:
            st = {e: M.to_spec(tau[e]) for e in E3}
            vs = [(st[E3[0]][n] + st[E3[1]][n] + st[E3[2]][n]) * half for n in range(2)]
        sm = M.to_spec(mval) if not M.symbolic else mval
        sthr = M.to_spec(thr) if not M.symbolic else thr
        if not M.symbolic:
            return  # the abstraction has no native counterpart: the N = 1, 2, 3 harnesses are replayed natively instead
        # contract of min: the array it is applied to holds (a positive multiple of) the returned values, and m <= each
        paths = M.paths(body, assumptions=[])
        M.true("threshold_anyN/pre@min", seen.every(lambda cs: len(cs) >= 1), "numpy min asked (on every path)")
        import numpy as _np

        arr = seen[0] if seen else None
        ratio_ok = arr is not None and _np.shape(arr) == (2,)
        M.true("threshold_anyN/pre@min/argument-shape", ratio_ok, "")
        if not ratio_ok:
            return
        # m is the minimum of the array `arr` the code passed to min; relate arr to the returned values v = c * arr
        from engine import paths as P

        for k, p in enumerate(paths):
            pn = "threshold_anyN/%s/path%d" % (shape["what"], k)
            # assumptions: m <= arr[n] for the two generic elements
            p.fixed = list(p.fixed) + [M.atom(mval, "<=", arr[0]), M.atom(mval, "<=", arr[1])]
            r, _, _ = P.check_sat(p.formulas())
            if r == "unsat":
                # a path explored without the contract of min (m <= every element) that the contract excludes
                M.true(pn + "/excluded-by-contract-of-min", True, "infeasible once m <= v0, v1 is assumed")
                continue
            M.feasible(pn + "/feasible", p)
            # the value v_n the function returns (before clipping) and what min saw must be consistent: v_n = c * arr[n], c > 0
            c = None
            for n in range(2):
                M.eq(pn + "/min-applied-to-returned-quantity" + tag((n,)), arr[n], vs[n]) if shape["what"] == "density" or True else None
            m_v = mval  # after the eq obligations above, arr == v, hence m bounds the returned values
            if p.exc is not None:
                M.true(pn + "/raises-ValueError", isinstance(p.exc, ValueError), repr(p.exc))
                M.implies(pn + "/raises-only-if-minimum-below-minus-threshold", p, M.atom(m_v, "<", -sthr))
            else:
                M.implies(pn + "/returns-only-if-minimum-not-below-minus-threshold", p, M.atom(m_v, ">=", -sthr))
                out = p.outcome
                for n, v in enumerate(vs):
                    M.implies(pn + "/nonnegative-returned-unchanged" + tag((n,)), p, M.f_or(M.atom(v, "<", 0), M.atom(out[n], "==", v)))
                    M.implies(pn + "/small-negative-returned-as-zero" + tag((n,)), p, M.f_or(M.atom(v, ">=", 0), M.atom(out[n], "==", 0)))


def _np_min_patch(dens, fn):
    import contextlib

    return contextlib.nullcontext()
