"""Contracts for C13: contractions behave as the linear combinations they denote -- checked on the
REAL block routines and the real normalisation (assign_norm_cont), for every integral / evaluation module."""
import itertools

import numpy as np

from engine import bind

from .common import make_shell, tag
from .coulomb import boys_stub

MODULES = ["overlap", "overlap_screened", "eri_middle", "kinetic", "momentum", "angmom", "moment", "point_charge", "eri", "eval", "eval_deriv"]


def block_fn(M, module, other, extra):
    """returns f(shell) -> normalised block array with the tested shell on the FIRST index"""
    m = M.mods

    def dims(*shells):
        return tuple(x for sh in shells for x in (sh.coeffs.shape[1], len(sh.angmom_components_cart)))

    def two(cls, **kw):
        def f(sh):
            b = cls.construct_array_contraction(sh, other, **kw)
            M.shaped("c13/%s/block" % module, b[(Ellipsis,) + (0,) * (b.ndim - 4)] if b.ndim > 4 else b, dims(sh, other))
            b = b * sh.norm_cont.reshape(*b.shape[:2], *[1] * (b.ndim - 2))
            return b * other.norm_cont.reshape(1, 1, *b.shape[2:4], *[1] * (b.ndim - 4))

        return f

    def raw_two(cls, **kw):
        return lambda sh: cls.construct_array_contraction(sh, other, **kw)

    if module == "overlap":
        cls = m["gbasis.integrals.overlap"].Overlap
        return two(cls), raw_two(cls)
    if module == "overlap_screened":
        # with a screening tolerance: which blocks are dropped must not depend on how a shell is written
        cls = m["gbasis.integrals.overlap"].Overlap
        kw = dict(tol_screen=extra["tol"])
        return two(cls, **kw), raw_two(cls, **kw)
    if module == "kinetic":
        cls = m["gbasis.integrals.kinetic_energy"].KineticEnergyIntegral
        return two(cls), raw_two(cls)
    if module == "momentum":
        cls = m["gbasis.integrals.momentum"].MomentumIntegral
        return two(cls), raw_two(cls)
    if module == "angmom":
        cls = m["gbasis.integrals.angular_momentum"].AngularMomentumIntegral
        return two(cls), raw_two(cls)
    if module == "moment":
        cls = m["gbasis.integrals.moment"].Moment
        kw = dict(moment_coord=extra["C"], moment_orders=np.array([[1, 0, 1]]))
        return two(cls, **kw), raw_two(cls, **kw)
    if module == "point_charge":
        cls = m["gbasis.integrals.point_charge"].PointChargeIntegral
        kw = dict(points_coords=extra["pts"], points_charge=extra["q"])
        return two(cls, **kw), raw_two(cls, **kw)
    if module == "eri":
        cls = m["gbasis.integrals.electron_repulsion"].ElectronRepulsionIntegral

        def f(sh):
            b = M.shaped("c13/eri/block", cls.construct_array_contraction(sh, other, other, other), dims(sh, other, other, other))
            b = b * sh.norm_cont.reshape(*b.shape[:2], 1, 1, 1, 1, 1, 1)
            return b

        return f, lambda sh: cls.construct_array_contraction(sh, other, other, other)
    if module == "eri_middle":
        # the tested shell in position two, a second generalized shell (two columns) in position three
        cls = m["gbasis.integrals.electron_repulsion"].ElectronRepulsionIntegral
        third = extra["third"]

        def f(sh):
            b = M.shaped("c13/eri_middle/block", cls.construct_array_contraction(other, sh, third, other), dims(other, sh, third, other))
            b = b * sh.norm_cont.reshape(1, 1, *b.shape[2:4], 1, 1, 1, 1)
            b = b * third.norm_cont.reshape(1, 1, 1, 1, *b.shape[4:6], 1, 1)
            return np.moveaxis(b, (2, 3), (0, 1))  # tested shell's (segment, component) axes first

        return f, lambda sh: np.moveaxis(cls.construct_array_contraction(other, sh, third, other), (2, 3), (0, 1))
    if module in ("eval", "eval_deriv"):
        cls = m["gbasis.evals.eval_deriv"].EvalDeriv
        orders = np.array([0, 0, 0]) if module == "eval" else np.array([1, 0, 1])

        def f(sh):
            b = cls.construct_array_contraction(sh, extra["pts"], orders)
            return b * sh.norm_cont.reshape(*b.shape[:2], 1)

        return f, lambda sh: cls.construct_array_contraction(sh, extra["pts"], orders)
    raise ValueError(module)


class ContractionAlgebra:
    fp_domain = {"zero_prob": 0.0}  # coefficients are non-zero by the property's precondition
    fp = True  # cross-check: the same contract on the unmodified float64 code at sampled inputs (bounded)
    fp_nsamp = (1, 3)

    def fp_shapes(self, tier):
        sh = self.shapes(tier)
        step = max(1, len(sh) // (6 if tier == "quick" else 24))
        return sh[::step][:(6 if tier == "quick" else 24)]

    function = "construct_array_contraction of every module + GeneralizedContractionShell.assign_norm_cont"

    def shapes(self, tier):
        out = []
        for mod in MODULES:
            ls = (0, 1) if tier == "quick" or mod in ("eri", "eri_middle", "angmom") else (0, 1, 2)
            if mod == "overlap_screened":
                ls = (0,)
            for l in ls:
                out.append(dict(module=mod, l=l, K=2, M=2))
            if tier == "thorough" and mod not in ("eri", "eri_middle"):
                out.append(dict(module=mod, l=1, K=3, M=3))
                out.append(dict(module=mod, l=0, K=4, M=1))
                if mod in ("overlap", "kinetic", "moment", "momentum", "eval", "eval_deriv"):
                    out.append(dict(module=mod, l=3, K=2, M=2))
                if mod in ("overlap", "eval"):
                    out.append(dict(module=mod, l=0, K=4, M=4))
        return out

    def run(self, shape, M):
        pc = M.mods["gbasis.integrals.point_charge"]
        er = M.mods["gbasis.integrals.electron_repulsion"]
        boys = boys_stub(M)
        with bind.patched((pc.PointChargeIntegral, "boys_func", staticmethod(boys)), (er.ElectronRepulsionIntegral, "boys_func", staticmethod(boys))):
            self._run(shape, M)

    def _run(self, shape, M):
        module, l, K, Mn = shape["module"], shape["l"], shape["K"], shape["M"]
        A = M.vec("A", 3)
        exps = M.vec("a", K, "pos")
        coeffs = M.vec("d", (K, Mn))
        other = make_shell(M, 1 if module not in ("eri", "eri_middle") else 0, M.vec("B", 3), M.vec("od", (1, 1), "pos"), M.vec("ob", 1, "pos"))
        third = make_shell(M, 0, M.vec("C3", 3), M.vec("td", (1, 2), "pos"), M.vec("tb", 1, "pos")) if module == "eri_middle" else None
        extra = dict(third=third, C=M.vec("C", 3), pts=M.vec("R", (1, 3)), q=M.vec("q", 1), tol=M.scalar(M.pos("eps")))
        f, raw = block_fn(M, module, other, extra)
        gen = make_shell(M, l, A, coeffs, exps)
        ref = f(gen)
        name = "c13/%s" % module

        def compare(tagname, got, exp):
            M.true("%s/%s/shape" % (name, tagname), got.shape == exp.shape, "%s vs %s" % (got.shape, exp.shape))
            if got.shape != exp.shape:
                return
            for idx in np.ndindex(*exp.shape):
                M.eq("%s/%s%s" % (name, tagname, tag(idx)), got[idx], exp[idx])

        # (a) a generalized shell = its columns as separate shells, in the same order
        for m in range(Mn):
            col = make_shell(M, l, A, M.array(coeffs[:, m:m + 1].copy()), exps)
            compare("column%d-as-own-shell" % m, f(col)[0], ref[m])
        # (b) primitives listed in another order
        perm = list(range(K))[::-1] if K > 1 else [0]
        permuted = make_shell(M, l, A, M.array(coeffs[perm].copy()), M.array(exps[perm].copy()))
        compare("primitive-order", f(permuted), ref)
        # (c) a primitive split in two, coefficient shared between them
        e1 = M.vec("s", Mn)
        sp_exps = M.array(np.concatenate([np.asarray(exps, dtype=object), np.asarray(exps, dtype=object)[:1]]))
        sp_coeffs = np.concatenate([np.asarray(coeffs, dtype=object), np.asarray(e1, dtype=object)[None, :]], axis=0)
        sp_coeffs[0] = sp_coeffs[0] - np.asarray(e1, dtype=object)
        split = make_shell(M, l, A, M.array(sp_coeffs), sp_exps)
        compare("primitive-split", f(split), ref)
        # (d) a column multiplied by a positive factor (renormalised away) / a negative one (sign flip)
        lam = M.pos("lam")
        sc = np.array(coeffs, dtype=object).copy()
        sc[:, 0] = sc[:, 0] * lam
        scaled = make_shell(M, l, A, M.array(sc), exps)
        compare("positive-scale", f(scaled), ref)
        sc2 = np.array(coeffs, dtype=object).copy()
        sc2[:, 0] = sc2[:, 0] * (-lam)
        flipped = f(make_shell(M, l, A, M.array(sc2), exps))
        expflip = np.array(ref, dtype=object).copy()
        expflip[0] = -expflip[0]
        compare("negative-scale", flipped, M.array(expflip))
        # (e) the un-normalised block is linear in the coefficients
        c2 = M.vec("f", (K, Mn))
        mu = M.real("mu")
        r1, r2 = raw(gen), raw(make_shell(M, l, A, c2, exps))
        rsum = raw(make_shell(M, l, A, M.array(np.asarray(coeffs, dtype=object) + np.asarray(c2, dtype=object) * mu), exps))
        compare("linear", rsum, M.array(np.asarray(r1, dtype=object) + np.asarray(r2, dtype=object) * mu))
