"""Contracts for C15 (gbasis/evals/stress_tensor.py).  The three density routines it calls are
replaced by their contracts (postconditions proved under C06) over opaque orbital atoms; the
differential relations are checked by formal ('ghost') differentiation of the reduced density
matrix:  d/dr_k D(o1;o2) = D(o1+e_k;o2) + D(o1;o2+e_k),  D(o1;o2) = sum_ab gamma_ab Phi^{o1}_a Phi^{o2}_b."""
import numpy as np

from engine import bind

from .assembly import build_shells
from .common import Frame, tag
from .density import D, E3, OrbStub, _add, leibniz, sym_dm

Z3 = (0, 0, 0)


class Lin:
    """linear combination of D(o1;o2) with field coefficients"""

    def __init__(self, terms=None):
        self.t = dict(terms or {})

    def add(self, key, c):
        self.t[key] = self.t[key] + c if key in self.t else c
        return self

    def __add__(self, o):
        r = Lin(self.t)
        for k, c in o.t.items():
            r.add(k, c)
        return r

    def scale(self, c):
        return Lin({k: v * c for k, v in self.t.items()})

    def d(self, k):
        r = Lin()
        for (o1, o2), c in self.t.items():
            r.add((_add(o1, E3[k]), o2), c)
            r.add((o1, _add(o2, E3[k])), c)
        return r


def Dl(o1, o2, c=1):
    return Lin({(tuple(o1), tuple(o2)): c})


def laplacian_rho():
    r = Lin()
    for i in range(3):
        r = r + Dl(Z3, Z3).d(i).d(i)
    return r


def sigma_spec(i, j, alpha, beta, half):
    """documented expression: -alpha D(e_i;e_j) + (1-alpha) D(e_i+e_j;0) - 1/2 delta_ij beta lap(rho)"""
    s = Dl(E3[i], E3[j], -alpha) + Dl(_add(E3[i], E3[j]), Z3, 1 - alpha)
    if i == j:
        s = s + laplacian_rho().scale(-(half * beta))
    return s


def force_doc(j, alpha, beta, half):
    s = Lin()
    for i in range(3):
        two = _add(E3[i], E3[i])
        s = s + Dl(two, E3[j], alpha) + Dl(_add(two, E3[j]), Z3, -(1 - alpha)) + Dl(_add(E3[i], E3[j]), E3[i], -(1 - 2 * alpha))
    s = s + laplacian_rho().d(j).scale(half * beta)
    return s


def hessian_doc(j, k, alpha, beta, half):
    s = Lin()
    for i in range(3):
        two = _add(E3[i], E3[i])
        ej, ek, ei = E3[j], E3[k], E3[i]
        s = s + Dl(_add(two, ek), ej, alpha) + Dl(two, _add(ej, ek), alpha)
        s = s + Dl(_add(_add(two, ej), ek), Z3, -(1 - alpha)) + Dl(_add(two, ej), ek, -(1 - alpha))
        s = s + Dl(_add(_add(ei, ej), ek), ei, -(1 - 2 * alpha)) + Dl(_add(ei, ej), _add(ei, ek), -(1 - 2 * alpha))
    s = s + laplacian_rho().d(j).d(k).scale(half * beta)
    return s


class Stress:
    fp = True  # cross-check: the same contract on the unmodified float64 code at sampled inputs (bounded)
    fp_nsamp = (1, 3)

    def fp_shapes(self, tier):
        sh = self.shapes(tier)
        step = max(1, len(sh) // (6 if tier == "quick" else 24))
        return sh[::step][:(6 if tier == "quick" else 24)]

    function = "gbasis.evals.stress_tensor.evaluate_stress_tensor / evaluate_ehrenfest_force / evaluate_ehrenfest_hessian"
    sparse = True

    def shapes(self, tier):
        out = []
        for a in ("sym", 0, 1, 0.5, 2):
            for b in ("sym", 0, 1):
                if tier == "quick" and a not in ("sym", 0, 1, 0.5) :
                    continue
                out.append(dict(alpha=a, beta=b, nb=2, npts=1, transform=(a == "sym")))
        out.append(dict(alpha="sym", beta="sym", nb=3, npts=2, transform=False))
        out.append(dict(alpha="default", beta="default", nb=2, npts=1, transform=False))
        out.append(dict(alpha="rejects", beta=0, nb=2, npts=1, transform=False))
        return out

    def run(self, shape, M):
        st = M.mods["gbasis.evals.stress_tensor"]
        nb, npts = shape["nb"], shape["npts"]
        stub = OrbStub(M, nb, npts)
        basis = build_shells(M, [dict(l=0, M=1)])
        points = M.vec("R", (npts, 3))
        dm = sym_dm(M, nb)
        sdm = M.to_spec(dm)
        transform = M.vec("U", (nb, 1)) if shape["transform"] else None
        calls = []
        F = M.F

        def dval(o1, o2, n, field_dm=None):
            return D(M, dm, stub.phi(o1), stub.phi(o2), n)

        def rdm(o1, o2, dm_, basis_, points_, transform=None, deriv_type="general"):
            calls.append((dm_, basis_, points_, transform, deriv_type))
            return M.array([dval(tuple(int(x) for x in o1), tuple(int(x) for x in o2), n) for n in range(npts)])

        def lap(dm_, basis_, points_, transform=None, deriv_type="general"):
            calls.append((dm_, basis_, points_, transform, deriv_type))
            return M.array([sum((leibniz_code(_add(e, e), n) for e in E3), F.num(0)) for n in range(npts)])

        def dd(orders, dm_, basis_, points_, transform=None, deriv_type="general"):
            calls.append((dm_, basis_, points_, transform, deriv_type))
            return M.array([leibniz_code(tuple(int(x) for x in orders), n) for n in range(npts)])

        def leibniz_code(o, n):
            # value handed to the code (field of the code: symbolic or float)
            from math import comb

            tot = F.num(0)
            for lx in range(o[0] + 1):
                for ly in range(o[1] + 1):
                    for lz in range(o[2] + 1):
                        c = comb(o[0], lx) * comb(o[1], ly) * comb(o[2], lz)
                        tot = tot + dval((lx, ly, lz), (o[0] - lx, o[1] - ly, o[2] - lz), n) * c
            return tot

        patches = ((st, "evaluate_deriv_reduced_density_matrix", rdm), (st, "evaluate_density_laplacian", lap), (st, "evaluate_deriv_density", dd))
        inline = getattr(self, "inline", False)
        if inline:
            # nothing of the density layer is replaced: only the orbital evaluations at the bottom are (opaque Phi^(o)),
            # so the verdict does not depend on which density routines the stress code chooses to call
            dens = M.mods["gbasis.evals.density"]
            patches = ((dens, "evaluate_basis", stub.evaluate_basis), (dens, "evaluate_deriv_basis", stub.evaluate_deriv_basis))
        if shape["alpha"] == "rejects":
            with bind.patched(*patches):
                for fn in (st.evaluate_stress_tensor, st.evaluate_ehrenfest_force, st.evaluate_ehrenfest_hessian):
                    M.raises("stress/rejects/alpha-str/" + fn.__name__, lambda: fn(dm, basis, points, alpha="1"), TypeError)
                    M.raises("stress/rejects/beta-none/" + fn.__name__, lambda: fn(dm, basis, points, beta=None), TypeError)
            return
        kw = {}
        if shape["alpha"] == "default":
            alpha, beta = 1, 0
        else:
            alpha = M.real("alpha") if shape["alpha"] == "sym" else shape["alpha"]
            beta = M.real("beta") if shape["beta"] == "sym" else shape["beta"]
            kw = dict(alpha=M.scalar(alpha) if shape["alpha"] == "sym" else alpha, beta=M.scalar(beta) if shape["beta"] == "sym" else beta)
        res = {}
        with bind.patched(*patches):
            for name, fn, extra in (("stress", st.evaluate_stress_tensor, {}), ("force", st.evaluate_ehrenfest_force, {}),
                                    ("hessian", st.evaluate_ehrenfest_hessian, {}), ("hessian_sym", st.evaluate_ehrenfest_hessian, {"symmetric": True})):
                del calls[:]
                fr = Frame(dm=dm, points=points)
                res[name] = fn(dm, basis, points, transform=transform, **kw, **extra)
                fr.check(M, name, res[name])
                if inline:
                    stub.check_calls(M, name, basis, points, transform)
                    del stub.calls[:]
                else:
                    M.true(name + "/pre@density-routines", len(calls) > 0 and all(c[0] is dm and c[1] is basis and c[2] is points and c[3] is transform and c[4] == "general" for c in calls),
                           "density matrix, basis, points, transform forwarded to every density routine")
        # ---- specification side
        SF = M.SF
        sal = M.to_spec(alpha) if (not M.symbolic and shape["alpha"] == "sym") else (alpha if not isinstance(alpha, float) else SF.num(1) * 0 + _frac(SF, alpha))
        sbe = M.to_spec(beta) if (not M.symbolic and shape["beta"] == "sym") else beta
        half = SF.num(1) / 2
        phis = {}

        def evalin(lin, n):
            tot = SF.num(0)
            for (o1, o2), c in lin.t.items():
                for o in (o1, o2):
                    if o not in phis:
                        phis[o] = M.to_spec(stub.phi(o))
                tot = tot + D(M, sdm, phis[o1], phis[o2], n) * c
            return tot

        sig, frc, hes, hsym = (M.to_spec(res[k]) if not M.symbolic else res[k] for k in ("stress", "force", "hessian", "hessian_sym"))
        M.true("stress/shape", tuple(sig.shape) == (npts, 3, 3) and tuple(frc.shape) == (npts, 3) and tuple(hes.shape) == (npts, 3, 3), "")
        for n in range(npts):
            for i in range(3):
                for j in range(3):
                    M.eq("stress/out" + tag((n, i, j)), sig[n, i, j], evalin(sigma_spec(i, j, sal, sbe, half), n))
                    M.eq("stress/symmetric" + tag((n, i, j)), sig[n, i, j], sig[n, j, i])
            for j in range(3):
                div = Lin()
                for i in range(3):
                    div = div + sigma_spec(i, j, sal, sbe, half).d(i)
                M.eq("force/minus-div-stress" + tag((n, j)), frc[n, j], evalin(div.scale(-1), n))
                M.eq("force/documented" + tag((n, j)), frc[n, j], evalin(force_doc(j, sal, sbe, half), n))
                for k in range(3):
                    jac = force_doc(j, sal, sbe, half).d(k)
                    M.eq("hessian/jacobian-of-force" + tag((n, j, k)), hes[n, j, k], evalin(jac, n))
                    M.eq("hessian/documented" + tag((n, j, k)), hes[n, j, k], evalin(hessian_doc(j, k, sal, sbe, half), n))
                    M.eq("hessian/symmetric-option" + tag((n, j, k)), hsym[n, j, k], (hes[n, j, k] + hes[n, k, j]) * half)


def _frac(SF, x):
    from fractions import Fraction

    return SF.num(Fraction(x))


class StressInline(Stress):
    """the same three laws with the whole density layer REAL (only evaluate_basis / evaluate_deriv_basis are replaced by
    opaque orbital derivatives Phi^(o)): independent of which density routines the stress code calls and how"""

    function = "gbasis.evals.stress_tensor.* (inline: real density routines; orbital evaluations opaque)"
    inline = True

    def shapes(self, tier):
        out = [dict(alpha="sym", beta="sym", nb=2, npts=1, transform=True), dict(alpha="sym", beta="sym", nb=2, npts=1, transform=False),
               dict(alpha=0.5, beta=1, nb=2, npts=1, transform=True)]
        if tier == "thorough":
            out += [dict(alpha=0, beta="sym", nb=3, npts=2, transform=True), dict(alpha=1, beta=0, nb=2, npts=1, transform=False)]
        return out
