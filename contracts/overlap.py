"""Contracts for C01: cleanup / composition in _moment_int, primitive and contraction
normalisation in contractions.py, Overlap.construct_array_contraction, dispatch functions."""
import numpy as np

from engine import bind
from specs import basisfn
from specs.basisfn import ShellSpec

from .common import Frame, Seen, cart_components, make_shell, tag


def _comps(kind, l):
    base = cart_components(l)
    if kind == "default":
        return base
    if kind == "reversed":
        return base[::-1]
    if kind == "rot":
        return base[1:] + base[:1]
    if kind == "dup":  # repeated + permuted rows (the kernel must accept arbitrary lists)
        return [base[-1], base[0], base[0]] + base[1:2]
    raise ValueError(kind)


class Cleanup:
    """_cleanup_intermediate_integrals on an opaque table:
    out[d,ma,la,mb,lb] = sum_{pa,pb} ca[pa,ma] na[la,pa] cb[pb,mb] nb[lb,pb] prod_ax T[o[d,ax], b[lb,ax], a[la,ax], ax, pb, pa]"""

    fp = True  # cross-check: the same contract on the unmodified float64 code at sampled inputs (bounded)
    fp_nsamp = (1, 3)

    def fp_shapes(self, tier):
        sh = self.shapes(tier)
        step = max(1, len(sh) // (6 if tier == "quick" else 24))
        return sh[::step][:(6 if tier == "quick" else 24)]


    function = "gbasis.integrals._moment_int._cleanup_intermediate_integrals"
    sparse = True

    def shapes(self, tier):
        out = [
            dict(K=[2, 3], M=[2, 1], la=1, lb=2, ca="default", cb="reversed", orders=[[0, 0, 0]]),
            dict(K=[1, 1], M=[1, 1], la=0, lb=0, ca="default", cb="default", orders=[[1, 0, 2], [0, 0, 0], [1, 0, 2]]),
            dict(K=[3, 2], M=[1, 3], la=2, lb=1, ca="dup", cb="rot", orders=[[2, 1, 0], [0, 0, 3]]),
        ]
        if tier == "thorough":
            out += [
                dict(K=[4, 1], M=[3, 2], la=3, lb=0, ca="rot", cb="default", orders=[[0, 4, 0]]),
                dict(K=[1, 4], M=[2, 3], la=0, lb=3, ca="default", cb="dup", orders=[[1, 1, 1], [0, 0, 2]]),
                dict(K=[2, 2], M=[2, 2], la=4, lb=4, ca="default", cb="default", orders=[[0, 0, 0]]),
                dict(K=[2, 1], M=[1, 2], la=5, lb=2, ca="reversed", cb="default", orders=[[2, 0, 0], [0, 2, 0], [0, 0, 2]]),
            ]
        return out

    def run(self, shape, M):
        mod = M.mods["gbasis.integrals._moment_int"]
        Ka, Kb = shape["K"]
        Ma, Mb = shape["M"]
        ca = np.array(_comps(shape["ca"], shape["la"]))
        cb = np.array(_comps(shape["cb"], shape["lb"]))
        orders = np.array(shape["orders"])
        om, am, bm = int(orders.max()), int(ca.max()), int(cb.max())
        T = M.vec("T", (om + 1, bm + 1, am + 1, 3, Kb, Ka), "opq")
        coa, cob = M.vec("da", (Ka, Ma)), M.vec("db", (Kb, Mb))
        na, nb = M.vec("na", (len(ca), Ka)), M.vec("nb", (len(cb), Kb))
        fr = Frame(T=T, orders=orders, ca=ca, cb=cb, coa=coa, cob=cob, na=na, nb=nb)
        out = mod._cleanup_intermediate_integrals(T, orders, ca, coa, na, cb, cob, nb)
        fr.check(M, "cleanup", out)
        out = M.shaped("cleanup/shape", out, (len(orders), Ma, len(ca), Mb, len(cb)))
        sT, scoa, scob, sna, snb = map(M.to_spec, (T, coa, cob, na, nb))
        for d in range(len(orders)):
            for ma in range(Ma):
                for la in range(len(ca)):
                    for mb in range(Mb):
                        for lb in range(len(cb)):
                            tot = M.SF.num(0)
                            for pa in range(Ka):
                                for pb in range(Kb):
                                    t = scoa[pa, ma] * sna[la, pa] * scob[pb, mb] * snb[lb, pb]
                                    for ax in range(3):
                                        t = t * sT[orders[d, ax], cb[lb, ax], ca[la, ax], ax, pb, pa]
                                    tot = tot + t
                            M.eq("cleanup/out" + tag((d, ma, la, mb, lb)), out[d, ma, la, mb, lb], tot)


class ComposeMoment:
    """_compute_multipole_moment_integrals = cleanup(intermediate(...)) with both callees replaced
    by their contracts: the table requested must cover every index the cleanup reads."""

    function = "gbasis.integrals._moment_int._compute_multipole_moment_integrals"
    sparse = True

    def shapes(self, tier):
        return [
            dict(la=2, lb=1, orders=[[0, 0, 0]]),
            dict(la=0, lb=3, orders=[[2, 0, 1], [0, 3, 0]]),
            dict(la=3, lb=3, orders=[[0, 0, 4], [1, 1, 1], [0, 0, 0]]),
        ]

    def run(self, shape, M):
        mod = M.mods["gbasis.integrals._moment_int"]
        ca, cb = np.array(cart_components(shape["la"])), np.array(cart_components(shape["lb"]))
        orders = np.array(shape["orders"])
        Ka, Kb, Ma, Mb = 2, 3, 2, 1
        A, B, C = M.vec("A", 3), M.vec("B", 3), M.vec("C", 3)
        ea, eb = M.vec("a", Ka, "pos"), M.vec("b", Kb, "pos")
        coa, cob = M.vec("da", (Ka, Ma)), M.vec("db", (Kb, Mb))
        na, nb = M.vec("na", (len(ca), Ka)), M.vec("nb", (len(cb), Kb))
        seen = Seen("compose_moment/pre@callees")

        def inter_stub(coord_moment, order_max, coord_a, am, exps_a, coord_b, bm, exps_b):
            seen["inter"] = (coord_moment, order_max, coord_a, am, exps_a, coord_b, bm, exps_b)
            seen["table"] = M.vec("T", (int(order_max) + 1, int(bm) + 1, int(am) + 1, 3, exps_b.size, exps_a.size), "opq")
            return seen["table"]

        def clean_stub(table, o, aa, ca_, na_, ab, cb_, nb_):
            seen["clean"] = (table, o, aa, ca_, na_, ab, cb_, nb_)
            seen["res"] = M.vec("R", (len(o), ca_.shape[1], len(aa), cb_.shape[1], len(ab)), "opq")
            return seen["res"]

        with bind.patched((mod, "_compute_multipole_moment_integrals_intermediate", inter_stub),
                          (mod, "_cleanup_intermediate_integrals", clean_stub)):
            out = mod._compute_multipole_moment_integrals(C, orders, A, ca, ea, coa, na, B, cb, eb, cob, nb)
        i = seen["inter"]
        M.true("compose/pre@intermediate/coords", i[0] is C and i[2] is A and i[5] is B, "centres forwarded")
        M.true("compose/pre@intermediate/exps", i[4] is ea and i[7] is eb, "exponents forwarded")
        M.true("compose/pre@intermediate/order_max", int(i[1]) >= int(orders.max()), "order table covers max order")
        M.true("compose/pre@intermediate/a_max", int(i[3]) >= int(ca.max()), "table covers left components")
        M.true("compose/pre@intermediate/b_max", int(i[6]) >= int(cb.max()), "table covers right components")
        c = seen["clean"]
        M.true("compose/pre@cleanup/table", c[0] is seen["table"], "table passed on unchanged")
        M.true("compose/pre@cleanup/args", c[1] is orders and c[2] is ca and c[3] is coa and c[4] is na
               and c[5] is cb and c[6] is cob and c[7] is nb, "arguments in the order (orders, a..., b...)")
        M.true("compose/result", out is seen["res"], "result of cleanup returned")


class NormPrim:
    fp = True  # also sampled on the unmodified float64 code (bounded stand-in for rounding)
    """GeneralizedContractionShell.norm_prim_cart[c,k]^2 * int g^2 = 1 and > 0, shape (L, K)"""

    function = "gbasis.contractions.GeneralizedContractionShell.norm_prim_cart"

    def shapes(self, tier):
        return [dict(l=l, K=2 if l < 3 else 1) for l in range(0, 7 if tier == "quick" else 8)]

    def run(self, shape, M):
        l, K = shape["l"], shape["K"]
        exps = M.vec("a", K, "pos")
        sh = make_shell(M, l, M.vec("A", 3), M.vec("d", (K, 1)), exps, norm_cont=M.vec("n", (1, (l + 1) * (l + 2) // 2), "pos"))
        fr = Frame(exps=exps)
        norm = sh.norm_prim_cart
        fr.check(M, "norm_prim", norm)
        comps = cart_components(l)
        norm = M.shaped("norm_prim/shape", norm, (len(comps), K))
        M.true("norm_prim/components", [tuple(int(x) for x in r) for r in sh.angmom_components_cart] == comps,
               "documented default component order")
        sexps = M.to_spec(exps)
        for c, comp in enumerate(comps):
            for k in range(K):
                M.eq("norm_prim/unit" + tag((c, k)), norm[c, k] * norm[c, k] * basisfn.self_overlap_prim(M.SF, sexps[k], comp), 1)
                M.eq("norm_prim/value" + tag((c, k)), norm[c, k], basisfn.prim_norm(M.SF, sexps[k], comp))
        # the property is a function of the shell's CURRENT exponents: after an in-place update of the exponent array the
        # shell holds, and after an assignment through the setter, a fresh read gives the norms of the new exponents
        e_new = M.pos("a_new")
        sh.exps[0] = e_new
        norm2 = sh.norm_prim_cart
        s_new = M.to_spec(M.array([e_new]))[0]
        for c, comp in enumerate(comps):
            M.eq("norm_prim/after-in-place-update" + tag((c, 0)), norm2[c, 0], basisfn.prim_norm(M.SF, s_new, comp))
            for k in range(1, K):
                M.eq("norm_prim/after-in-place-update" + tag((c, k)), norm2[c, k], basisfn.prim_norm(M.SF, sexps[k], comp))
        exps3 = M.vec("b", K, "pos")
        sh.exps = exps3
        norm3 = sh.norm_prim_cart
        s3 = M.to_spec(exps3)
        for c, comp in enumerate(comps):
            for k in range(K):
                M.eq("norm_prim/after-setter" + tag((c, k)), norm3[c, k], basisfn.prim_norm(M.SF, s3[k], comp))


def sym_shell_pair(M, la, lb, Ka, Kb, Ma, Mb, same_centre=False, types=None):
    """two real shells with symbolic data; opaque positive norm_cont (not used by the block); types: the coordinate-type
    tags of the two shells (a block routine returns the Cartesian block whatever the tags say)"""
    types = types or ("cartesian", "cartesian")
    if Ka == 1 and Kb == 1 and not same_centre:
        P, AB = M.vec("P", 3), M.vec("AB", 3)
        a, b = M.pos("a_0"), M.pos("b_0")
        A = M.array(P + AB * (b / (a + b)))
        B = M.array(P - AB * (a / (a + b)))
        ea, eb = M.array([a]), M.array([b])
    else:
        B = M.vec("B", 3)
        A = B if same_centre else M.array(B + M.vec("AB", 3))
        ea, eb = M.vec("a", Ka, "pos"), M.vec("b", Kb, "pos")
    da, db = M.vec("da", (Ka, Ma)), M.vec("db", (Kb, Mb))
    La, Lb = (la + 1) * (la + 2) // 2, (lb + 1) * (lb + 2) // 2
    s1 = make_shell(M, la, A, da, ea, coord_type=types[0], norm_cont=M.vec("n1", (Ma, La), "pos"))
    s2 = make_shell(M, lb, B, db, eb, coord_type=types[1], norm_cont=M.vec("n2", (Mb, Lb), "pos"))
    return s1, s2


def spec_of_shell(M, sh):
    return ShellSpec(M.to_spec(sh.coord), M.to_spec(sh.exps), M.to_spec(sh.coeffs),
                     [tuple(int(x) for x in r) for r in sh.angmom_components_cart])


def stress_domain(profile):
    """float-sampling domains at the edges of the stated ranges (used by the two-centre block contracts)"""
    if profile == "far-diffuse":
        # diffuse shells 26-30 bohr apart along one axis: exp(-mu R^2) ~ 1e-4, while exp(-R^2) underflows
        return {"pos": (0.02, 0.05), "zero_prob": 0.0, "real": 1.5, "by_prefix": {"d": (0.3, 1.5)},
                "real_by_prefix": {"AB_0": (26.0, 30.0, True), "AB_1": (0.0, 1.0), "AB_2": (0.0, 1.0)}}
    if profile == "tight-close":
        # tight shells (harmonic mean of the exponents beyond 708, where exp(-mu) underflows) a few 1e-3 .. 5e-2 bohr apart,
        # 40-80 bohr from the origin (cancellation in anything measured from the origin grows like (a+b)|A|^2)
        return {"pos": (2e4, 1e5), "zero_prob": 0.0, "real": 1.5, "by_prefix": {"d": (0.3, 1.5)},
                "real_by_prefix": {"AB": (1e-3, 2e-2, True), "P": (60.0, 80.0, True), "B": (60.0, 80.0, True), "X": (0.0, 1.0, True)}}
    return {}


# shells tagged spherical / mixed: the Cartesian block must not depend on the tags (l differing by 0, 1, 2; either order)
TYPE_SHAPES = [dict(la=0, lb=2, K=[1, 1], M=[1, 1], types=["spherical", "cartesian"]), dict(la=2, lb=0, K=[1, 1], M=[1, 1], types=["cartesian", "spherical"]),
               dict(la=1, lb=1, K=[1, 1], M=[1, 1], types=["spherical", "spherical"]), dict(la=2, lb=1, K=[1, 1], M=[1, 1], types=["spherical", "cartesian"]),
               dict(la=0, lb=2, K=[1, 1], M=[1, 1], types=["spherical", "spherical"])]


class OverlapBlock:
    fp = True  # also sampled on the unmodified float64 code (bounded stand-in for rounding)

    def fp_shapes(self, tier):
        # besides the ordinary samples: diffuse shells 26-30 bohr apart along one axis (exp(-mu R^2) ~ 1e-4: an intermediate
        # exp(-R^2) would underflow), and tight shells a few 1e-3 bohr apart
        extra = [dict(la=0, lb=0, K=[1, 1], M=[1, 1], profile="far-diffuse"), dict(la=1, lb=2, K=[1, 1], M=[1, 1], profile="far-diffuse"),
                 dict(la=0, lb=1, K=[2, 1], M=[1, 1], profile="far-diffuse"), dict(la=1, lb=1, K=[1, 1], M=[1, 1], profile="tight-close")]
        return self.shapes(tier) + extra

    def fp_domain_for(self, shape):
        if shape.get("profile") == "far-diffuse":
            return {"pos": (0.02, 0.05), "zero_prob": 0.0, "real": 1.5, "by_prefix": {"d": (0.3, 1.5)},
                    "real_by_prefix": {"AB_0": (26.0, 30.0, True), "AB_1": (0.0, 1.0), "AB_2": (0.0, 1.0)}}
        return stress_domain(shape.get("profile"))


    """Overlap.construct_array_contraction(s1, s2)[m1,c1,m2,c2] = int phi~_{s1,m1,c1} phi~_{s2,m2,c2}
    (primitive-normalised, contraction not yet normalised), callees inlined; fresh; frame."""

    function = "gbasis.integrals.overlap.Overlap.construct_array_contraction"

    def shapes(self, tier):
        out = []
        lmax = 3 if tier == "quick" else 5
        for la in range(lmax + 1):
            for lb in range(lmax + 1):
                out.append(dict(la=la, lb=lb, K=[1, 1], M=[1, 1]))
        out += [dict(la=1, lb=0, K=[2, 1], M=[2, 1]), dict(la=0, lb=2, K=[1, 2], M=[1, 3]),
                dict(la=1, lb=1, K=[2, 2], M=[2, 2])]
        out += TYPE_SHAPES
        if tier == "thorough":
            out += [dict(la=2, lb=1, K=[3, 2], M=[1, 2]), dict(la=0, lb=0, K=[4, 4], M=[3, 3]),
                    dict(la=2, lb=2, K=[2, 2], M=[2, 1])]
        return out

    def run(self, shape, M):
        ov = M.mods["gbasis.integrals.overlap"]
        s1, s2 = sym_shell_pair(M, shape["la"], shape["lb"], *shape["K"], *shape["M"], types=shape.get("types"))
        fr = Frame(c1=s1.coord, e1=s1.exps, d1=s1.coeffs, c2=s2.coord, e2=s2.exps, d2=s2.coeffs,
                   n1=s1.norm_cont, n2=s2.norm_cont)
        out = ov.Overlap.construct_array_contraction(s1, s2)
        fr.check(M, "overlap_block", out)
        sa, sb = spec_of_shell(M, s1), spec_of_shell(M, s2)
        out = M.shaped("overlap_block/shape", out, (sa.M, sa.L, sb.M, sb.L))
        spec = basisfn.overlap_block(M.SF, sa, sb)
        for idx, v in spec.items():
            M.eq("overlap_block/out" + tag(idx), out[idx], v)


class AssignNormCont:
    """assign_norm_cont with Overlap.construct_array_contraction replaced by its contract
    (opaque positive self-overlap O): norm_cont[m,c]^2 * O[m,c,m,c] = 1, norm_cont > 0, shape (M, L);
    assigns only self.norm_cont."""

    function = "gbasis.contractions.GeneralizedContractionShell.assign_norm_cont"
    sparse = True

    def shapes(self, tier):
        return [dict(l=0, M=1), dict(l=1, M=2), dict(l=2, M=3)] + ([dict(l=4, M=2)] if tier == "thorough" else [])

    def run(self, shape, M):
        ov = M.mods["gbasis.integrals.overlap"]
        l, Mn = shape["l"], shape["M"]
        L = (l + 1) * (l + 2) // 2
        K = 2
        exps, coeffs, coord = M.vec("a", K, "pos"), M.vec("d", (K, Mn)), M.vec("A", 3)
        sh = make_shell(M, l, coord, coeffs, exps, norm_cont=M.vec("old", (Mn, L), "pos"))
        O = M.vec("O", (Mn, L, Mn, L), "pos")
        calls = []

        def stub(c1, c2, **kw):
            calls.append((c1, c2, kw))
            return O.copy()  # the callee's contract says 'fresh': the caller owns (and may overwrite) it

        before = dict(sh.__dict__)
        fr = Frame(exps=exps, coeffs=coeffs, coord=coord)
        with bind.patched((ov.Overlap, "construct_array_contraction", staticmethod(stub))):
            sh.assign_norm_cont()
        fr.check(M, "assign_norm_cont")
        M.true("assign_norm_cont/pre@overlap", len(calls) == 1 and calls[0][0] is sh and calls[0][1] is sh and not calls[0][2],
               "self-overlap of the shell with itself, unscreened")
        after = dict(sh.__dict__)
        changed = [k for k in set(before) | set(after) if before.get(k) is not after.get(k)]
        M.true("assign_norm_cont/assigns", changed == ["norm_cont"], "attributes assigned: %s" % changed)
        nc = M.shaped("assign_norm_cont/shape", sh.norm_cont, (Mn, L))
        sO = M.to_spec(O)
        for m in range(Mn):
            for c in range(L):
                M.eq("assign_norm_cont/unit" + tag((m, c)), nc[m, c] * nc[m, c] * sO[m, c, m, c], 1)
                M.eq("assign_norm_cont/value" + tag((m, c)), nc[m, c], M.SF.pow(sO[m, c, m, c], -0.5) if not M.symbolic else sO[m, c, m, c] ** -0.5)


class NormContInline:
    fp = True  # also sampled on the unmodified float64 code (bounded stand-in for rounding)
    """end to end: a shell as constructed is unit-normalised: norm_cont[m,c]^2 * <phi~|phi~>_spec = 1
    (real constructor, real Overlap, nested radical), and again after its exponents / coefficients
    were replaced through the setters followed by assign_norm_cont()."""

    function = "gbasis.contractions.GeneralizedContractionShell.__init__"

    def shapes(self, tier):
        out = [dict(l=0, K=1, M=1), dict(l=1, K=2, M=1), dict(l=2, K=1, M=2)]
        if tier == "thorough":
            out += [dict(l=0, K=3, M=2), dict(l=3, K=2, M=1), dict(l=2, K=2, M=2), dict(l=4, K=1, M=1)]
        return out

    def run(self, shape, M):
        l, K, Mn = shape["l"], shape["K"], shape["M"]
        coord = M.vec("A", 3)
        exps, coeffs = M.vec("a", K, "pos"), M.vec("d", (K, Mn), "pos")
        sh = make_shell(M, l, coord, coeffs, exps)
        self._check(M, sh, "constructed")
        exps2, coeffs2 = M.vec("g", K, "pos"), M.vec("h", (K, Mn), "pos")
        sh.exps = exps2
        sh.coeffs = coeffs2
        sh.assign_norm_cont()
        self._check(M, sh, "renormalised")

    def _check(self, M, sh, what):
        sa = spec_of_shell(M, sh)
        spec = basisfn.overlap_block(M.SF, sa, sa)
        nc = sh.norm_cont
        M.true("norm_cont/%s/shape" % what, tuple(nc.shape) == (sa.M, sa.L), str(nc.shape))
        for m in range(sa.M):
            for c in range(sa.L):
                M.eq("norm_cont/%s/unit" % what + tag((m, c)), nc[m, c] * nc[m, c] * spec[m, c, m, c], 1)


class OverlapInline:
    """end to end, everything real (constructor, normalisation, kernels, assembly, exact transformation
    matrices): every diagonal element of overlap_integral is exactly 1 for Cartesian, spherical and mixed
    bases; the matrix is symmetric; overlap_integral_asymmetric(b1, b2) is the off-diagonal block of the
    overlap of the union"""

    fp = True  # cross-check: the same contract on the unmodified float64 code at sampled inputs (bounded)
    fp_nsamp = (1, 3)

    def fp_shapes(self, tier):
        sh = self.shapes(tier)
        step = max(1, len(sh) // (6 if tier == "quick" else 24))
        return sh[::step][:(6 if tier == "quick" else 24)]


    function = "gbasis.integrals.overlap.overlap_integral / overlap_asymm.overlap_integral_asymmetric (inline)"

    def shapes(self, tier):
        out = []
        lm = 2 if tier == "quick" else 4
        for l in range(lm + 1):
            out.append(dict(shells=[dict(l=l, K=1, M=1, type="spherical")]))
            out.append(dict(shells=[dict(l=l, K=1, M=1, type="cartesian")]))
        out.append(dict(shells=[dict(l=1, K=2, M=2, type="spherical")]))
        out.append(dict(shells=[dict(l=2, K=2, M=1, type="spherical")]))
        for t1 in ("cartesian", "spherical"):
            for t2 in ("cartesian", "spherical"):
                out.append(dict(shells=[dict(l=1, K=1, M=1, type=t1), dict(l=2 if tier == "thorough" else 0, K=1, M=1, type=t2)]))
        out.append(dict(shells=[dict(l=0, K=2, M=2, type="cartesian"), dict(l=1, K=1, M=1, type="spherical")]))
        if tier == "thorough":
            out.append(dict(shells=[dict(l=2, K=1, M=1, type="spherical"), dict(l=1, K=2, M=1, type="cartesian"), dict(l=0, K=1, M=2, type="spherical")]))
        return out

    def run(self, shape, M):
        ov = M.mods["gbasis.integrals.overlap"]
        oa = M.mods["gbasis.integrals.overlap_asymm"]
        shells = []
        for i, sp in enumerate(shape["shells"]):
            coeffs = M.vec("d%d" % i, (sp["K"], sp["M"]), "pos")
            shells.append(make_shell(M, sp["l"], M.vec("A%d" % i, 3), coeffs, M.vec("e%d" % i, sp["K"], "pos"), coord_type=sp["type"]))
        S = ov.overlap_integral(shells)
        n = S.shape[0]
        M.true("overlap_inline/square", S.shape == (n, n), str(S.shape))
        for i in range(n):
            M.eq("overlap_inline/diagonal" + tag((i,)), S[i, i], 1)
            for j in range(i + 1, n):
                M.eq("overlap_inline/symmetric" + tag((i, j)), S[i, j], S[j, i])
        if len(shells) == 1 and shape["shells"][0]["M"] == 1:
            for i in range(n):
                for j in range(n):
                    if i != j and shape["shells"][0]["type"] == "spherical":
                        M.eq("overlap_inline/orthogonal-within-spherical-shell" + tag((i, j)), S[i, j], 0)
        if len(shells) >= 2:
            b1, b2 = shells[:1], shells[1:]
            Sa = oa.overlap_integral_asymmetric(b1, b2)
            n1 = Sa.shape[0]
            M.true("overlap_inline/asymmetric-shape", Sa.shape == (n1, n - n1), str(Sa.shape))
            for i in range(n1):
                for j in range(n - n1):
                    M.eq("overlap_inline/asymmetric-is-block-of-union" + tag((i, j)), Sa[i, j], S[i, n1 + j])


class ShellSetters:
    """GeneralizedContractionShell: the coordinate-type tag is stored in its long form for every documented spelling
    ('cartesian' / 'c' -> 'cartesian', 'spherical' / 'p' -> 'spherical'), anything else is rejected; the public
    integral / evaluation routes choose by that tag, so a shell declared 'p' gives the same arrays as 'spherical'
    and 'c' the same as 'cartesian' (checked on the real overlap, kinetic and point-charge wrappers, kernels inlined)."""

    function = "gbasis.contractions.GeneralizedContractionShell.coord_type (setter) and the routes selected by it"

    def shapes(self, tier):
        return [dict(l=2), dict(l=1)] + ([dict(l=3)] if tier == "thorough" else [])

    def run(self, shape, M):
        from .coulomb import boys_stub

        l = shape["l"]
        m = M.mods
        A, B = M.vec("A", 3), M.vec("B", 3)
        ea, eb = M.vec("a", 1, "pos"), M.vec("b", 1, "pos")
        da, db = M.vec("da", (1, 1), "pos"), M.vec("db", (1, 1), "pos")

        def basis(t1, t2):
            return [make_shell(M, l, A, da, ea, coord_type=t1), make_shell(M, 0, B, db, eb, coord_type=t2)]

        for given, stored in (("cartesian", "cartesian"), ("c", "cartesian"), ("spherical", "spherical"), ("p", "spherical")):
            sh = make_shell(M, l, A, da, ea, coord_type=given)
            M.true("shell/coord_type/%s" % given, sh.coord_type == stored, "stored %r" % (sh.coord_type,))
            sh.coord_type = given
            M.true("shell/coord_type/%s/reassigned" % given, sh.coord_type == stored, "stored %r" % (sh.coord_type,))
        sh = make_shell(M, l, A, da, ea)
        for bad, exc in (("s", ValueError), ("pure", ValueError), ("Cartesian", ValueError), ("", ValueError), (None, TypeError), (0, TypeError)):
            def set_bad(v=bad):
                sh.coord_type = v
            M.raises("shell/coord_type/rejects/%r" % (bad,), set_bad, exc)
        M.true("shell/coord_type/unchanged-after-rejection", sh.coord_type == "cartesian", repr(sh.coord_type))
        # every setter rejects atomically: after a rejected update the shell holds exactly what it held before
        K = 2
        sh2 = make_shell(M, l, A, M.vec("d2", (K, 2)), M.vec("e2", K, "pos"), norm_cont=M.vec("n2", (2, (l + 1) * (l + 2) // 2), "pos"))
        before = {k: v for k, v in sh2.__dict__.items()}

        def rejected(name, fn, exc):
            M.raises("shell/setter/%s/rejected" % name, fn, exc)
            now = sh2.__dict__
            same = set(now) == set(before) and all(now[k] is before[k] or (not isinstance(before[k], np.ndarray) and now[k] == before[k]) for k in before)
            M.true("shell/setter/%s/shell-unchanged-after-rejection" % name, same, "attributes that differ: %s" % [k for k in before if k not in now or not (now[k] is before[k])][:4])

        def setter(attr, val):
            return lambda: setattr(sh2, attr, val)

        rejected("coeffs-too-many-rows", setter("coeffs", M.vec("bad1", (K + 1, 2))), ValueError)
        rejected("coeffs-1d-wrong-length", setter("coeffs", M.vec("bad2", K + 1)), ValueError)
        rejected("coeffs-3d", setter("coeffs", M.vec("bad3", (K, 1, 1))), ValueError)
        rejected("coeffs-list", setter("coeffs", [[1.0, 2.0]] * K), TypeError)
        rejected("exps-wrong-length", setter("exps", M.vec("bad4", K + 1, "pos")), ValueError)
        rejected("exps-list", setter("exps", [1.0] * K), TypeError)
        rejected("coord-wrong-length", setter("coord", M.vec("bad5", 2)), (TypeError, ValueError))
        rejected("angmom-negative", setter("angmom", -1), (TypeError, ValueError))
        rejected("angmom-float", setter("angmom", 1.5), (TypeError, ValueError))
        # an ACCEPTED update replaces what the shell holds; it never writes into the array the shell was given before - the
        # caller, or another shell built on the same centre / exponent / coefficient array (make_contractions gives every
        # shell of an atom the same centre array), still holds that one - nor into the new one
        X, e0, d0 = M.vec("X", 3), M.vec("e0", K, "pos"), M.vec("d0", (K, 1))
        s1 = make_shell(M, l, X, d0, e0, norm_cont=M.vec("n3", (1, (l + 1) * (l + 2) // 2), "pos"))
        s2 = make_shell(M, 0, X, d0, e0, norm_cont=M.vec("n4", (1, 1), "pos"))
        for attr, old, new in (("coord", X, M.vec("Y", 3)), ("exps", e0, M.vec("e1", K, "pos")), ("coeffs", d0, M.vec("d1", (K, 1)))):
            old_vals, new_vals = [S_ for S_ in np.asarray(old, dtype=object).reshape(-1)], [S_ for S_ in np.asarray(new, dtype=object).reshape(-1)]
            setattr(s1, attr, new)

            def same(arr, vals):
                flat = np.asarray(arr, dtype=object).reshape(-1)
                return len(flat) == len(vals) and all(a is b or (not M.symbolic and a == b) for a, b in zip(flat, vals))

            M.true("shell/setter/%s/accepted/previous-array-not-written" % attr, same(old, old_vals), "the array the shell held before still has its values")
            M.true("shell/setter/%s/accepted/new-array-not-written" % attr, same(new, new_vals), "")
            M.true("shell/setter/%s/accepted/other-shell-on-the-same-array-unmoved" % attr, same(getattr(s2, attr), old_vals), "a second shell built on the same array keeps its value")
            M.true("shell/setter/%s/accepted/shell-holds-the-new-value" % attr, same(getattr(s1, attr), new_vals), "")
        pc = m["gbasis.integrals.point_charge"]
        pts, q = M.vec("R", (1, 3)), M.vec("q", 1)
        with bind.patched((pc.PointChargeIntegral, "boys_func", staticmethod(boys_stub(M)))):
            routes = {"overlap": lambda b: m["gbasis.integrals.overlap"].overlap_integral(b),
                      "kinetic": lambda b: m["gbasis.integrals.kinetic_energy"].kinetic_energy_integral(b),
                      "point_charge": lambda b: pc.point_charge_integral(b, pts, q)[:, :, 0]}
            for name, f in routes.items():
                for short, long_ in (("p", "spherical"), ("c", "cartesian")):
                    got, ref = f(basis(short, "c")), f(basis(long_, "cartesian"))
                    n = (2 * l + 1 if long_ == "spherical" else (l + 1) * (l + 2) // 2) + 1
                    M.true("shell/route/%s/%s/shape" % (name, short), tuple(got.shape) == (n, n) == tuple(ref.shape), "%s vs %s" % (got.shape, ref.shape))
                    if tuple(got.shape) != tuple(ref.shape):
                        continue
                    for i in range(n):
                        for j in range(n):
                            M.eq("shell/route/%s/%s%s" % (name, short, tag((i, j))), got[i, j], ref[i, j])
