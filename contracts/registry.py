"""property id -> Check (harnesses, level, assumptions)"""
from engine.bind import SUBSTITUTIONS
from engine.runner import Check

BASE_ASSUMPTIONS = [
    "machine arithmetic treated as mathematical: doubles are read as reals; rounding is not covered by the deductive part",
    "CPython 3.12 + numpy execute object-dtype arrays with the same structural semantics (indexing, broadcasting, "
    "views, tensordot, einsum, concatenate, reductions) as float64 arrays",
    "shape families are finite (enumerated angular momenta / primitive counts / orders); nothing is claimed outside them - except by the contracts of contracts.unbounded where this file lists them, which remove the bound on the angular momenta / orders / components for the functions they name",
    "trusted calculus: Gaussian moment formula, Gaussian product rule (re-checked), differentiation under the integral sign",
    "the verifier itself (engine/alg.py normal form, engine/sym.py proxy, runner)",
] + SUBSTITUTIONS

CHECKS = {}


def reg(prop, level, harnesses, functions, note="", extra_assumptions=()):
    CHECKS[prop] = Check(prop, level, harnesses, BASE_ASSUMPTIONS + list(extra_assumptions), functions, note)


reg(
    "C01",
    "proof",
    ["contracts.moment_int:MomentIntermediate", "contracts.overlap:Cleanup", "contracts.overlap:ComposeMoment",
     "contracts.overlap:NormPrim", "contracts.overlap:OverlapBlock", "contracts.overlap:AssignNormCont",
     "contracts.overlap:NormContInline", "contracts.overlap:OverlapInline", "contracts.assembly:TwoSymm", "contracts.assembly:TwoAsymm",
     "contracts.dispatch:Dispatch", "contracts.dispatch:DispatchAsymm", "contracts.symmetry:BlockOrientation"],
    ["gbasis.integrals._moment_int._compute_multipole_moment_integrals_intermediate", "gbasis.integrals._moment_int._cleanup_intermediate_integrals",
     "gbasis.integrals._moment_int._compute_multipole_moment_integrals", "gbasis.contractions.GeneralizedContractionShell.norm_prim_cart",
     "gbasis.contractions.GeneralizedContractionShell.assign_norm_cont", "gbasis.integrals.overlap.Overlap.construct_array_contraction",
     "gbasis.integrals.overlap.overlap_integral", "gbasis.integrals.overlap_asymm.overlap_integral_asymmetric",
     "gbasis.base_two_symm.BaseTwoIndexSymmetric.construct_array_*", "gbasis.base_two_asymm.BaseTwoIndexAsymmetric.construct_array_*"],
)

ASM = ["contracts.assembly:OneIndex", "contracts.assembly:TwoSymm", "contracts.assembly:TwoAsymm", "contracts.assembly:FourSymm"]
reg("C09", "proof", ASM, ["gbasis.base_one.BaseOneIndex.construct_array_{cartesian,spherical,mix,lincomb}",
    "gbasis.base_two_symm.BaseTwoIndexSymmetric.construct_array_{cartesian,spherical,mix,lincomb}",
    "gbasis.base_two_asymm.BaseTwoIndexAsymmetric.construct_array_{cartesian,spherical,mix,lincomb}",
    "gbasis.base_four_symm.BaseFourIndexSymmetric.construct_array_{cartesian,spherical,mix,lincomb}"])

DISP = ["contracts.dispatch:Dispatch", "contracts.dispatch:DispatchAsymm", "contracts.dispatch:ConventionInline"]
CHECKS["C09"].harnesses += DISP
# routines above the integral / evaluation layer that take `transform` themselves: it must reach every basis index there too
CHECKS["C09"].harnesses += ["contracts.density:DerivDensity", "contracts.density:GradLapHess", "contracts.density:KineticDensity", "contracts.stress:StressInline"]

reg("C02", "proof", ["contracts.moment_int:MomentIntermediate", "contracts.overlap:Cleanup", "contracts.diffop:DiffIntermediate",
    "contracts.diffop:ComposeDiff", "contracts.diffop:KineticBlock", "contracts.symmetry:BlockOrientation", "contracts.assembly:TwoSymm",
    "contracts.dispatch:Dispatch", "contracts.overlap:NormPrim", "contracts.overlap:AssignNormCont"],
    ["gbasis.integrals._diff_operator_int._compute_differential_operator_integrals_intermediate",
     "gbasis.integrals._diff_operator_int._compute_differential_operator_integrals",
     "gbasis.integrals.kinetic_energy.KineticEnergyIntegral.construct_array_contraction"])
reg("C07", "proof", ["contracts.moment_int:MomentIntermediate", "contracts.overlap:Cleanup", "contracts.overlap:ComposeMoment",
    "contracts.diffop:MomentBlock", "contracts.diffop:MomentLemmas", "contracts.symmetry:BlockOrientation", "contracts.assembly:TwoSymm",
    "contracts.dispatch:Dispatch"], ["gbasis.integrals._moment_int.* (as C01)", "gbasis.integrals.moment.Moment.construct_array_contraction",
    "gbasis.integrals.moment.moment_integral", "gbasis.base_two_symm.BaseTwoIndexSymmetric.construct_array_* (trailing axis)"])
reg("C08", "proof", ["contracts.diffop:DiffIntermediate", "contracts.diffop:MomentumBlock", "contracts.diffop:AngMomBlock",
    "contracts.assembly:TwoSymmHerm", "contracts.symmetry:BlockOrientation", "contracts.symmetry:AssemblyPermutation", "contracts.dispatch:Dispatch",
    "contracts.moment_int:MomentIntermediate"],
    ["gbasis.integrals._diff_operator_int._compute_differential_operator_integrals_intermediate", "gbasis.integrals.momentum.MomentumIntegral.construct_array_contraction",
    "gbasis.integrals.angular_momentum.AngularMomentumIntegral.construct_array_contraction"])

reg("C10", "proof", ["contracts.spherical:Harmonics", "contracts.spherical:Conventions", "contracts.spherical:AllCartesianOrdersL3"],
    ["gbasis.spherical.generate_transformation", "gbasis.spherical.real_solid_harmonic", "gbasis.spherical.harmonic_norm",
     "gbasis.spherical.expansion_coeff", "gbasis.spherical.shift_factor",
     "gbasis.contractions.GeneralizedContractionShell.angmom_components_cart/_sph/num_cart/num_sph"])

reg("C05", "proof", ["contracts.deriv:GeneralKernel", "contracts.deriv:DirectKernel", "contracts.deriv:EvalBlocks",
    "contracts.assembly:OneIndex"],
    ["gbasis.evals._deriv._eval_deriv_contractions", "gbasis.evals._deriv._eval_first_second_order_deriv_contractions",
     "gbasis.evals._deriv._first_derivative", "gbasis.evals._deriv._second_derivative",
     "gbasis.evals.eval_deriv.EvalDeriv.construct_array_contraction", "gbasis.evals.eval.Eval.construct_array_contraction",
     "gbasis.base_one.BaseOneIndex.construct_array_*"])

reg("C06", "proof", ["contracts.density:DensityFromOrbs", "contracts.density:DensityThreshold", "contracts.density:ReducedDM",
    "contracts.density:DerivDensity", "contracts.density:GradLapHess", "contracts.density:KineticDensity", "contracts.density:ThresholdAnyN"],
    ["gbasis.evals.density.evaluate_density_using_evaluated_orbs", "gbasis.evals.density.evaluate_density",
     "gbasis.evals.density.evaluate_deriv_reduced_density_matrix", "gbasis.evals.density.evaluate_deriv_density",
     "gbasis.evals.density.evaluate_density_gradient", "gbasis.evals.density.evaluate_density_laplacian",
     "gbasis.evals.density.evaluate_density_hessian", "gbasis.evals.density.evaluate_posdef_kinetic_energy_density",
     "gbasis.evals.density.evaluate_general_kinetic_energy_density"],
    extra_assumptions=["evaluate_basis / evaluate_deriv_basis replaced by their contracts (opaque orbital atoms; C05 and C09 are their proofs)",
                       "branch obligations and path feasibility discharged by z3 4.x/5.x (QF_NRA), 20 s budget per query; unknown = undecided"])

reg("C15", "proof", ["contracts.stress:Stress", "contracts.stress:StressInline", "contracts.deriv:GeneralKernel@quick", "contracts.deriv:EvalBlocks", "contracts.density:ReducedDM", "contracts.density:DerivDensity", "contracts.density:GradLapHess"],
    ["gbasis.evals.stress_tensor.evaluate_stress_tensor", "gbasis.evals.stress_tensor.evaluate_ehrenfest_force",
     "gbasis.evals.stress_tensor.evaluate_ehrenfest_hessian"],
    extra_assumptions=["density routines replaced by their contracts (proved under C06, re-discharged here)",
                       "alpha, beta: generic symbolic path covers every real value outside the special-cased constants, which are separate shapes"])

reg("C14", "proof", ["contracts.esp:ESP", "contracts.esp:ESPInline",
    # the callee chain that carries the electronic part (contract of point_charge_integral = C03), re-discharged here
    "contracts.coulomb:OneElecKernel", "contracts.coulomb:PointChargeBlock", "contracts.coulomb:PointChargeInline", "contracts.coulomb:BoysFunction",
    "contracts.dispatch:Dispatch", "contracts.assembly:TwoSymm"],
    ["gbasis.evals.electrostatic_potential.electrostatic_potential", "gbasis.integrals.point_charge.point_charge_integral",
     "gbasis.base_two_symm.BaseTwoIndexSymmetric.construct_array_*",
     "gbasis.integrals.point_charge.PointChargeIntegral.construct_array_contraction", "gbasis.integrals._one_elec_int._compute_one_elec_integrals"],
    extra_assumptions=["inside ESP, point_charge_integral is replaced by its contract; that contract (C03) is discharged in the same check on the real kernels",
                       "mask / case analysis by z3 (QF_NRA with square-root atoms)",
                       "PointChargeIntegral.boys_func replaced by a symbolic Boys function (atoms F_m(T)); the real implementation by the bounded stand-in only"])

reg("C20", "proof", ["contracts.screening:IsScreened", "contracts.screening:IsScreenedAnyK", "contracts.screening:ScreeningLemmas", "contracts.screening:OverlapScreenedBlock",
    "contracts.assembly:TwoSymm", "contracts.dispatch:Dispatch"],
    ["gbasis.integrals.overlap.is_integral_screened", "gbasis.integrals.overlap.Overlap.construct_array_contraction",
     "gbasis.integrals.overlap.overlap_integral", "gbasis.base_two_symm.BaseTwoIndexSymmetric.construct_array_* (keyword forwarding)"],
    extra_assumptions=["precondition 0 < tol_screen < 1 (the property's range 1e-16 .. 0.5)",
                       "ln / exp enter z3 through sound axiom instances: strict monotonicity, sign of ln around 1, exp(ln x) = x"])

reg("C03", "proof", ["contracts.coulomb:OneElecKernel", "contracts.coulomb:PointChargeBlock", "contracts.coulomb:PointChargeInline", "contracts.coulomb:BoysFunction",
    "contracts.dispatch:Dispatch", "contracts.assembly:TwoSymm"],
    ["gbasis.integrals._one_elec_int._compute_one_elec_integrals", "gbasis.integrals.point_charge.PointChargeIntegral.construct_array_contraction",
     "gbasis.integrals.point_charge.point_charge_integral", "gbasis.integrals.nuclear_electron_attraction.nuclear_electron_attraction_integral"],
    extra_assumptions=["PointChargeIntegral.boys_func replaced by a symbolic Boys function (atoms F_m(T)): the kernels are proved for ANY function "
                       "satisfying boys(m, T) = F_m(T); the real hyp1f1-based implementation is covered by the bounded stand-in only",
                       "trusted calculus: (s|1/r_C|s) = (2 pi/p) E F_0(p|PC|^2), dF_m/dT = -F_{m+1}, differentiation under the integral sign"])

reg("C04", "proof", ["contracts.coulomb:TwoElecKernel", "contracts.coulomb:ERIBlock", "contracts.coulomb:ERISymmetry", "contracts.coulomb:BoysFunction",
    "contracts.numeric:ERIIllConditioned",
    "contracts.dispatch:Dispatch", "contracts.assembly:FourSymm"],
    ["gbasis.integrals._two_elec_int._compute_two_elec_integrals", "gbasis.integrals._two_elec_int._compute_two_elec_integrals_angmom_zero",
     "gbasis.integrals.electron_repulsion.ElectronRepulsionIntegral.construct_array_contraction",
     "gbasis.integrals.electron_repulsion.electron_repulsion_integral", "gbasis.base_four_symm.BaseFourIndexSymmetric.construct_array_*"],
    extra_assumptions=["boys_func replaced by a symbolic Boys function: the kernels are proved for ANY function with boys(m, T) = F_m(T)",
                       "trusted calculus: (ss|ss) closed form, dF_m/dT = -F_{m+1}, differentiation under the integral sign",
                       "rounding (the 1e-6 Schwarz clause, ill-conditioned quartets) is NOT covered by the deductive part"])

reg("C18", "other", ["contracts.importers:MakeContractions", "contracts.importers:FromPyscf", "contracts.importers:ParserRoundTrip"],
    ["gbasis.parsers.make_contractions", "gbasis.wrappers.from_pyscf", "gbasis.parsers.parse_nwchem (bounded)", "gbasis.parsers.parse_gbs (bounded)"],
    note="make_contractions / from_pyscf: contracts checked on tracked argument objects over an enumerated family of molecules and coordinate-type "
         "forms (no real-valued computation involved). parse_nwchem / parse_gbs: BOUNDED run-time round-trip contract on generated files only "
         "(layout switches enumerated, numbers seeded); no contract within reach of the installed string solvers decides re.split.",
    extra_assumptions=["file parsers: bounded stand-in only (generated files), never counted as proved",
                       "GeneralizedContractionShell.assign_norm_cont replaced by a recorder while shells are built (its contract is C01)",
                       "wrappers.from_iodata not covered (iodata package absent)"])

reg("C19", "proof", ["contracts.purity:Purity", "contracts.density:DensityFromOrbs", "contracts.density:DensityThreshold", "contracts.density:KineticDensity",
    "contracts.overlap:NormContInline", "contracts.overlap:AssignNormCont", "contracts.importers:MakeContractions",
    "contracts.esp:ESP"],
    ["frame / fresh / errstate clauses of every public function (contracts.purity:Purity lists them)",
     "gbasis.contractions.GeneralizedContractionShell.assign_norm_cont", "gbasis.parsers.make_contractions",
     "gbasis.evals.electrostatic_potential.electrostatic_potential"],
    note="per-call frame conditions proved for all real inputs on the enumerated shapes; the statement for every call sequence follows by "
         "induction on the length of the sequence (each call starts from an unchanged state and depends only on its arguments)",
    extra_assumptions=["history quantifier discharged by the composition lemma over per-call frames, not by exploring sequences"])

reg("C13", "proof", ["contracts.contraction_algebra:ContractionAlgebra", "contracts.overlap:AssignNormCont", "contracts.overlap:Cleanup",
    # routines above the block level that count or index contracted functions themselves (a generalized shell must be
    # accepted and answered exactly like its columns written as separate shells)
    "contracts.esp:ESP", "contracts.esp:ESPInline"],
    ["construct_array_contraction of Overlap, KineticEnergyIntegral, MomentumIntegral, AngularMomentumIntegral, Moment, PointChargeIntegral, "
     "ElectronRepulsionIntegral, EvalDeriv (kernels inlined)", "gbasis.contractions.GeneralizedContractionShell.assign_norm_cont"],
    extra_assumptions=["a shell's contraction is not the zero function (its self-overlap, the radicand of norm_cont, is positive)",
                       "symbolic Boys function for the Coulomb modules"])

reg("C11", "proof", ["contracts.symmetry:AssemblyPermutation", "contracts.symmetry:BlockOrientation", "contracts.coulomb:ERISymmetry",
    "contracts.coulomb:PointChargeInline", "contracts.assembly:TwoSymm@quick", "contracts.assembly:TwoSymmHerm", "contracts.assembly:FourSymm@quick",
    "contracts.dispatch:Dispatch",  # the public wrappers route by the coordinate types of the shells, whatever their order
    "contracts.numeric:ERIIllConditioned"],
    ["Base{One,TwoIndexSymmetric,FourIndexSymmetric}.construct_array_* on permuted shell lists",
     "construct_array_contraction of every two-index class in both orientations", "ElectronRepulsionIntegral.construct_array_contraction in eight orientations"],
    note="lemma over the assembly contracts (C09) and the block contracts (C01-C04, C07, C08), re-discharged here on the current tree",
    extra_assumptions=["rounding clause ('also for quartets pairing tight and diffuse shells' in floating point) is outside the deductive part"])

reg("C12", "proof", ["contracts.covariance:Covariance",
    # density-derived scalar / vector / tensor fields: covariant because they ARE the tensor expressions of C06 / C15 / C14 in the
    # (covariant) orbital derivatives and Coulomb integrals - those defining formulas are re-discharged here on the real routines
    "contracts.density:GradLapHess", "contracts.stress:StressInline", "contracts.esp:ESPInline",
    # translation invariance in floating point: the block contracts sampled far from the origin (stress profiles)
    "contracts.overlap:OverlapBlock@quick", "contracts.diffop:MomentBlock@quick", "contracts.coulomb:PointChargeInline@quick"],
    ["construct_array_contraction of Overlap, KineticEnergyIntegral, MomentumIntegral, AngularMomentumIntegral, Moment, PointChargeIntegral, "
     "ElectronRepulsionIntegral, EvalDeriv on a system and its image (kernels inlined)"],
    note="two symbolic runs of the real block routines (system / image) compared through the representation matrices; translation vector symbolic; "
         "48 signed axis permutations; rotation about z with a symbolic rational parameter (generates, with the permutations, all proper rotations). "
         "The exactness obligations of C01-C08 (distinct symbols per axis) carry the rest.",
    extra_assumptions=["rotations: l <= 2 (3 in the thorough tier for scalars); general rotations follow from the generators by the group law, not checked as such",
                       "symbolic Boys function"])

reg("C16", "other", ["contracts.deriv:GeneralKernel", "contracts.deriv:EvalBlocks", "contracts.overlap:NormPrim", "contracts.overlap:OverlapBlock",
    "contracts.diffop:KineticBlock", "contracts.diffop:MomentBlock", "contracts.overlap:AssignNormCont", "contracts.assembly:OneIndex",
    "contracts.assembly:TwoSymm", "contracts.density:DensityFromOrbs", "contracts.density:KineticDensity", "contracts.numeric:Quadrature"],
    ["lemma over the contracts of evaluate_basis / evaluate_deriv_basis / density (C05, C06) and overlap / moment / kinetic integrals (C01, C07, C02)"],
    note="deductive part: both halves of the library are proved against specification functions built from the SAME primitive (S0), the same "
         "normalisation (the shell's norm_prim_cart, proved equal to (int g^2)^(-1/2), and norm_cont) and the same component order, by independent "
         "routes (pointwise derivative vs closed-form Gaussian integral); the integral of the product of the pointwise specs IS the integral spec "
         "(Gaussian moment formula, trusted). The statement itself ('integrating numerically reproduces ...') is then run literally as a BOUNDED "
         "stand-in on the float code (uniform-grid trapezoid, exponents 0.3..3).",
    extra_assumptions=["numerical quadrature is a bounded stand-in (seeded random bases), never counted as proved"])
reg("C17", "other", ["contracts.overlap:OverlapBlock", "contracts.diffop:KineticBlock", "contracts.coulomb:OneElecKernel@quick", "contracts.coulomb:TwoElecKernel@quick",
    "contracts.numeric:GramBounds", "contracts.numeric:ERIIllConditioned"],
    ["corollary of C01-C04 (the arrays are Gram matrices of the basis functions under positive (semi-)definite forms)"],
    note="in real arithmetic the bounds are mathematical consequences of the exactness contracts C01-C04 (re-discharged here at the quick scale): the "
         "arrays are Gram matrices. No further code obligation exists. The property's own content is 'up to rounding', which no deductive verifier "
         "available here can reason about: it is covered by a BOUNDED stand-in on the float code (eigenvalue / Schwarz checks on seeded random bases, "
         "including nearly dependent ones).",
    extra_assumptions=["rounding behaviour: bounded stand-in only"])

# BOUNDED stand-in shared by the properties whose public routines take arrays: the symbolic execution cannot see dtype /
# memory layout (its arrays report float64), so representation independence is checked natively (never counted as proved)
for _p, _h in (("C03", "PointCharge"), ("C05", "Evals"), ("C06", "Density"), ("C07", "Moment"), ("C09", "Assembly"), ("C10", "Transformation"),
               ("C14", "Esp"), ("C15", "Stress"), ("C19", "InputRepresentation")):
    CHECKS[_p].harnesses.append("contracts.representation:" + _h)
    CHECKS[_p].assumptions.append("dtype / memory layout / writability of array arguments: bounded native check only (contracts.representation), "
                                  "the symbolic arrays all report float64")

# the coordinate-type tag (and its short spellings) selects the route of every public wrapper
# - a dependency of every property that is stated for "Cartesian, spherical and mixed bases" (the wrappers dispatch on the tag the
# setter stored), so its contract is discharged with each of them
for _p in ("C01", "C02", "C03", "C04", "C05", "C06", "C07", "C08", "C09", "C11", "C12", "C13", "C14", "C15", "C16", "C17", "C19", "C20"):
    CHECKS[_p].harnesses.append("contracts.overlap:ShellSetters")

# normalisation of the contracted functions (every property is stated over "the normalised contracted functions"): the
# contraction-norm contract of the shell class is discharged with every property about integrals or evaluations
for _p in ("C01", "C02", "C03", "C04", "C05", "C06", "C07", "C08", "C09", "C11", "C12", "C14", "C15", "C16", "C17"):
    for _h in ("contracts.overlap:AssignNormCont", "contracts.overlap:NormPrim"):
        if _h not in CHECKS[_p].harnesses:
            CHECKS[_p].harnesses.append(_h)

# the overlap array with a screening tolerance is a Gram matrix only up to what the screening contract (C20) allows
for _h in ("contracts.screening:IsScreened", "contracts.screening:OverlapScreenedBlock"):
    if _h not in CHECKS["C17"].harnesses:
        CHECKS["C17"].harnesses.append(_h)

# wherever the dispatch of the public wrappers is discharged, the asymmetric overlap wrapper (two bases, two transformations, two
# lists of coordinate types) is discharged as well
for _p, _c in CHECKS.items():
    if "contracts.dispatch:Dispatch" in _c.harnesses and "contracts.dispatch:DispatchAsymm" not in _c.harnesses:
        _c.harnesses.append("contracts.dispatch:DispatchAsymm")

# the public evaluation entry points (dispatch on the coordinate types, one-index assembly, block routines, orbital-derivative kernel)
# are what every property about densities and density-derived fields calls first: their contracts are re-discharged with each
EVAL_CHAIN = ["contracts.dispatch:Dispatch", "contracts.assembly:OneIndex", "contracts.deriv:EvalBlocks", "contracts.deriv:GeneralKernel@quick"]
for _p in ("C05", "C06", "C12", "C13", "C15", "C16"):
    for _h in EVAL_CHAIN:
        if _h not in CHECKS[_p].harnesses and _h.split("@")[0] not in CHECKS[_p].harnesses:
            CHECKS[_p].harnesses.append(_h)
# a parsed basis is the argument of the next import call: frame clauses on it (bounded, generated files)
CHECKS["C19"].harnesses.append("contracts.importers:ParserRoundTrip@quick")

# the contracts assumed on scipy.special by the symbolic runs, checked (bounded) on the reachable argument range
for _p in ("C01", "C05", "C10"):
    CHECKS[_p].harnesses.append("contracts.numeric:DependencyContracts")

# UNBOUNDED in the angular momenta and the moment order: generic-element execution of the real recursion kernel
for _p in ("C01", "C07", "C16"):
    CHECKS[_p].harnesses.append("contracts.unbounded:MomentRecursionAnyL")
    CHECKS[_p].assumptions.append("contracts.unbounded (any extent): engine/generic.py's reading of numpy basic indexing, right-aligned broadcasting and "
                                  "in-order slice assignment; range(lo, hi) iterates in order; the Obara-Saika relations characterise the 1-D integrals "
                                  "(tied to the closed-form specification by the per-shape contract up to extent 8)")
for _p in ("C02", "C08", "C16"):
    CHECKS[_p].harnesses.append("contracts.unbounded:DiffRecursionAnyL")
    CHECKS[_p].assumptions.append("contracts.unbounded (any extent): engine/generic.py's reading of numpy basic indexing, right-aligned broadcasting and "
                                  "in-order slice assignment; range(lo, hi) iterates in order; integration by parts for the derivative relation "
                                  "(tied to the closed-form specification by the per-shape contract up to extent 5)")
for _p in ("C04", "C11"):
    CHECKS[_p].harnesses.append("contracts.unbounded:ERIBlockAnyL")
    CHECKS[_p].assumptions.append("contracts.unbounded:ERIBlockAnyL / PointChargeBlockAnyL: the shells are stub subclass instances of "
                                  "GeneralizedContractionShell with a symbolic angular momentum (read-only interface as given by the harness; the real "
                                  "class is under contract per shape); numbers of segments, component rows and points are those of the harness shapes")
for _p in ("C03", "C11", "C14"):
    CHECKS[_p].harnesses.append("contracts.unbounded:PointChargeBlockAnyL")
for _p in ("C01", "C07", "C16"):
    CHECKS[_p].harnesses.append("contracts.unbounded:MomentWrapperAnyL")
for _p in ("C02", "C08", "C16"):
    CHECKS[_p].harnesses.append("contracts.unbounded:DiffWrapperAnyL")
for _p in ("C01", "C02", "C07", "C08", "C16"):
    CHECKS[_p].harnesses.append("contracts.unbounded:CleanupAnyL")
    CHECKS[_p].assumptions.append("contracts.unbounded (selection of orders / components from the recursion table, product over the axes, contraction: any "
                                  "extents, any rows): np.max / np.min of an array of symbolic integers replaced by their contracts (upper / lower bound "
                                  "of every entry); one generic row per array stands for all rows (rows only index; several rows are covered per shape)")
for _p in ("C03", "C14"):
    CHECKS[_p].harnesses.append("contracts.unbounded:OneElecKernelAnyL")
    CHECKS[_p].assumptions.append("contracts.unbounded (the WHOLE one-electron kernel, any l_a, l_b): engine/generic.py's reading of numpy basic indexing / "
                                  "broadcasting / in-order slice assignment / tensordot over a concrete axis / transpose of leading axes; (4 alpha)^(l/2) and "
                                  "(2k-1)!! with symbolic l, k as opaque positive atoms built identically on the specification side; the Obara-Saika vertical "
                                  "and horizontal relations characterise the integrals (tied to the Boys-derivative specification by the per-shape contract "
                                  "up to l_a + l_b = 6)")
for _p in ("C04", "C17"):
    CHECKS[_p].harnesses.append("contracts.unbounded:TwoElecRecursionsAnyL")
    CHECKS[_p].assumptions.append("contracts.unbounded (the WHOLE two-electron kernel, any l_a..l_d, any Cartesian component): engine/generic.py's "
                                  "reading of numpy basic indexing / leading integer-array indexing / broadcasting / in-order slice assignment / tensordot "
                                  "over a concrete axis / transpose; (4 alpha)^(l/2) and (2k-1)!! with symbolic l, k as opaque positive atoms built "
                                  "identically on the specification side; the Obara-Saika / HGP relations characterise the auxiliary integrals (tied to "
                                  "the Boys-derivative specification by the per-shape contract up to total l = 8); numbers of primitives / segments / "
                                  "component rows are those of the harness shapes")
