"""BOUNDED stand-in (run-time contract on the unmodified float64 code, never counted as proved):

    representation independence - the public routines are functions of the *mathematical* input.

The symbolic execution replaces every array by an object array that reports dtype float64, so it cannot see what the
code does with the machine representation of its arguments.  This harness closes that gap by running the real
functions natively on one mathematical input in several accepted representations - integer-valued points / centres /
charges / transformation matrices passed with an integer dtype, float32 for values exactly representable in it,
Fortran-ordered, non-contiguous and read-only arrays, small signed integer dtypes for integer tables - and requiring the
result to equal the result for the canonical representation (float64 / int64, C-contiguous, writable) to 1e-12 of its
scale (1e-7 where a float32 copy of non-dyadic data is inevitable: never used here), with a float64 result.
Representations the library rejects with TypeError / ValueError are skipped (rejection is the documented behaviour)."""
import numpy as np


def _variants(x, ints_ok=True, small=False):
    """[(label, array)] representations of the same numbers (x: canonical float64 or int64 C-contiguous array)"""
    out = [("fortran", np.asfortranarray(x.copy()))]
    big = np.zeros((2 * x.shape[0],) + x.shape[1:], dtype=x.dtype)
    big[::2] = x
    out.append(("strided-view", big[::2]))
    ro = x.copy()
    ro.flags.writeable = False
    out.append(("read-only", ro))
    if x.ndim == 2:
        out.append(("transposed-storage", np.ascontiguousarray(x.T).T))
    if x.dtype == np.float64:
        if ints_ok and np.all(x == np.round(x)):
            out.append(("int64", x.astype(np.int64)))
            out.append(("int32", x.astype(np.int32)))
        if np.all(x.astype(np.float32).astype(np.float64) == x):
            out.append(("float32", x.astype(np.float32)))
    elif x.dtype == np.int64:
        out.append(("int32", x.astype(np.int32)))
        if small and np.all(np.abs(x) < 100):
            out.append(("int16", x.astype(np.int16)))
            out.append(("int8", x.astype(np.int8)))
    return out


class InputRepresentation:
    """BOUNDED: f(x in another accepted dtype / memory layout / read-only) == f(x as float64 or int64, C-contiguous,
    writable) to 1e-12 of the scale, with the same result dtype and shape; representations the library rejects with
    TypeError / ValueError are skipped"""

    function = "public evaluation / integral routines: independence of dtype, memory layout and writability of array arguments"
    fp = True
    fp_only = True
    bounded = True
    fp_nsamp = (1, 1)

    WHAT = ["eval", "density", "density-derived", "stress", "point_charge", "esp", "moment", "transformation", "shell", "transform-matrix"]

    def fp_shapes(self, tier):
        return [dict(what=w) for w in self.WHAT]

    shapes = fp_shapes

    def run(self, shape, M):
        if M.symbolic:
            return
        m = M.mods
        Sh = m["gbasis.contractions"].GeneralizedContractionShell
        what = shape["what"]
        # integer-valued (hence exactly representable in every dtype used) points and centres; dyadic exponents
        basis = [Sh(1, np.array([0.0, 1.0, -1.0]), np.array([[0.5, 1.0], [0.25, -0.5]]), np.array([0.75, 2.5]), "spherical"),
                 Sh(2, np.array([1.0, 0.0, 2.0]), np.array([[1.0]]), np.array([0.5]), "cartesian"),
                 Sh(0, np.array([-1.0, -2.0, 0.0]), np.array([[1.0], [0.5]]), np.array([1.25, 0.375]), "cartesian")]
        nb = 2 * 3 + 6 + 1
        pts = np.array([[0.0, 0.0, 0.0], [1.0, -1.0, 2.0], [2.0, 1.0, 0.0], [-1.0, 3.0, 1.0], [0.0, 2.0, -2.0]])
        g = np.random.RandomState(7).uniform(-1, 1, (nb, nb))
        dm = g @ g.T / nb

        def agree(name, fn, canon, variants):
            ref = np.asarray(fn(canon))
            scale = max(1.0, float(np.max(np.abs(ref)))) if ref.size else 1.0
            for lab, v in variants:
                try:
                    got = fn(v)
                except (TypeError, ValueError) as e:
                    M.true("repr/%s/%s/accepted-or-rejected" % (name, lab), True, "rejected: %s" % type(e).__name__)
                    continue
                got = np.asarray(got)
                ok = got.shape == ref.shape and got.dtype == ref.dtype and bool(np.all(np.abs(got - ref) <= 1e-12 * scale))
                dev = float(np.max(np.abs(got.astype(float) - ref))) if got.shape == ref.shape and ref.size else float("nan")
                M.true("repr/%s/%s" % (name, lab), ok, "dtype %s vs %s, shape %s vs %s, max deviation %.3g (scale %.3g)" % (got.dtype, ref.dtype, got.shape, ref.shape, dev, scale))

        if what == "eval":
            ev, ed = m["gbasis.evals.eval"], m["gbasis.evals.eval_deriv"]
            agree("evaluate_basis/points", lambda p: ev.evaluate_basis(basis, p), pts, _variants(pts))
            for o in ([1, 0, 0], [0, 2, 1], [3, 0, 0]):
                oo = np.array(o)
                agree("evaluate_deriv_basis%s/points" % o, lambda p: ed.evaluate_deriv_basis(basis, p, oo), pts, _variants(pts))
                agree("evaluate_deriv_basis%s/orders" % o, lambda q: ed.evaluate_deriv_basis(basis, pts, q), oo, _variants(oo))
        elif what in ("density", "density-derived"):
            de = m["gbasis.evals.density"]
            fns = ([("evaluate_density", lambda p, d: de.evaluate_density(d, basis, p)),
                    ("evaluate_deriv_density", lambda p, d: de.evaluate_deriv_density(np.array([1, 0, 2]), d, basis, p))]
                   if what == "density" else
                   [("evaluate_density_gradient", lambda p, d: de.evaluate_density_gradient(d, basis, p)),
                    ("evaluate_density_laplacian", lambda p, d: de.evaluate_density_laplacian(d, basis, p)),
                    ("evaluate_density_hessian", lambda p, d: de.evaluate_density_hessian(d, basis, p)),
                    ("evaluate_posdef_kinetic_energy_density", lambda p, d: de.evaluate_posdef_kinetic_energy_density(d, basis, p)),
                    ("evaluate_general_kinetic_energy_density", lambda p, d: de.evaluate_general_kinetic_energy_density(d, basis, p, 0.5))])
            for name, f in fns:
                agree(name + "/points", lambda p: f(p, dm), pts, _variants(pts))
                agree(name + "/density-matrix", lambda d: f(pts, d), dm, [v for v in _variants(dm) if v[0] in ("fortran", "strided-view", "read-only", "transposed-storage")])
        elif what == "stress":
            st = m["gbasis.evals.stress_tensor"]
            for name, f in (("evaluate_stress_tensor", st.evaluate_stress_tensor), ("evaluate_ehrenfest_force", st.evaluate_ehrenfest_force),
                            ("evaluate_ehrenfest_hessian", st.evaluate_ehrenfest_hessian)):
                agree(name + "/points", lambda p: f(dm, basis, p, alpha=0.5, beta=0.25), pts[:3], _variants(pts[:3]))
                # alpha, beta are real numbers: a Python int, and the float an array element or a numpy reduction yields
                # (numpy.float64, a subclass of float), denote the same reals and must be answered alike - not rejected
                for lab, (a_, b_) in (("numpy.float64", (np.float64(0.5), np.float64(0.25))), ("element-of-linspace", (np.linspace(0.0, 1.0, 3)[1], np.linspace(0.0, 1.0, 5)[1])),
                                      ("int", (1, 0))):
                    ref = np.asarray(f(dm, basis, pts[:3], alpha=float(a_), beta=float(b_)))
                    try:
                        got = np.asarray(f(dm, basis, pts[:3], alpha=a_, beta=b_))
                    except Exception as e:  # noqa
                        M.true("repr/%s/alpha-beta/%s" % (name, lab), False, "real scalars given as %s are rejected: %s: %s" % (lab, type(e).__name__, e))
                        continue
                    sc = max(1.0, float(np.max(np.abs(ref)))) if ref.size else 1.0
                    M.true("repr/%s/alpha-beta/%s" % (name, lab), got.shape == ref.shape and bool(np.all(np.abs(got - ref) <= 1e-12 * sc)), "same result as for the Python float")
        elif what == "point_charge":
            pc = m["gbasis.integrals.point_charge"]
            q = np.array([1.0, -2.0, 3.0, 1.0, 2.0])
            agree("point_charge_integral/points", lambda p: pc.point_charge_integral(basis, p, q), pts, _variants(pts))
            agree("point_charge_integral/charges", lambda c: pc.point_charge_integral(basis, pts, c), q, _variants(q))
        elif what == "esp":
            es = m["gbasis.evals.electrostatic_potential"]
            nuc = np.array([[0.0, 1.0, -1.0], [1.0, 0.0, 2.0]])
            Z = np.array([1.0, 6.0])
            P = pts[:3] + np.array([0.5, 0.25, 0.125])
            cart = [Sh(s.angmom, s.coord, s.coeffs, s.exps, "cartesian") for s in basis]
            nbc = 2 * 3 + 6 + 1
            agree("electrostatic_potential/points", lambda p: es.electrostatic_potential(cart, dm[:nbc, :nbc], p, nuc, Z), P, _variants(P))
            agree("electrostatic_potential/nuclear-coords", lambda c: es.electrostatic_potential(cart, dm[:nbc, :nbc], P, c, Z), nuc, _variants(nuc))
            agree("electrostatic_potential/nuclear-charges", lambda z: es.electrostatic_potential(cart, dm[:nbc, :nbc], P, nuc, z), Z, _variants(Z))
        elif what == "moment":
            mo = m["gbasis.integrals.moment"]
            C = np.array([1.0, -1.0, 2.0])
            orders = np.array([[0, 0, 0], [1, 0, 2], [0, 3, 0]])
            agree("moment_integral/origin", lambda c: mo.moment_integral(basis, c, orders), C, _variants(C))
            agree("moment_integral/orders", lambda o: mo.moment_integral(basis, C, o), orders, _variants(orders))
        elif what == "transformation":
            sp = m["gbasis.spherical"]
            for l in range(0, 11):
                co = np.array([(i, j, l - i - j) for i in range(l, -1, -1) for j in range(l - i, -1, -1)], dtype=np.int64)
                lab = tuple(["s%d" % k for k in range(l, 0, -1)] + ["c0"] + ["c%d" % k for k in range(1, l + 1)])
                for side in ("left", "right"):
                    agree("generate_transformation[l=%d,%s]/cartesian-order" % (l, side), lambda c: sp.generate_transformation(l, c, lab, side), co,
                          _variants(co, small=True))
        elif what == "shell":
            ov, ki = m["gbasis.integrals.overlap"], m["gbasis.integrals.kinetic_energy"]

            def build(coord):
                return [Sh(2, coord, np.array([[0.5], [1.0]]), np.array([0.75, 2.5]), "spherical"), basis[1]]

            c = np.array([0.0, 1.0, -1.0])
            agree("shell-centre/overlap", lambda x: ov.overlap_integral(build(x)), c, _variants(c))
            agree("shell-centre/kinetic", lambda x: ki.kinetic_energy_integral(build(x)), c, _variants(c))
            e = np.array([0.75, 2.5])
            agree("shell-exponents/overlap", lambda x: ov.overlap_integral([Sh(1, c, np.array([[0.5], [1.0]]), x, "cartesian"), basis[1]]), e,
                  [v for v in _variants(e, ints_ok=False) if v[0] != "float32"])
            d = np.array([[0.5, 1.0], [0.25, -0.5]])
            agree("shell-coefficients/overlap", lambda x: ov.overlap_integral([Sh(1, c, x, e, "cartesian"), basis[1]]), d,
                  [v for v in _variants(d, ints_ok=False) if v[0] != "float32"])
        elif what == "transform-matrix":
            ov, ev = m["gbasis.integrals.overlap"], m["gbasis.evals.eval"]
            T = np.zeros((nb - 2, nb))
            for i in range(nb - 2):
                T[i, (3 * i + 1) % nb] = 1.0
                T[i, (i + 5) % nb] = -2.0
            agree("overlap_integral/transform", lambda t: ov.overlap_integral(basis, transform=t), T, _variants(T))
            agree("evaluate_basis/transform", lambda t: ev.evaluate_basis(basis, pts, transform=t), T, _variants(T))
            de = m["gbasis.evals.density"]
            dmo = dm[:nb - 2, :nb - 2]
            agree("evaluate_density/transform", lambda t: de.evaluate_density(dmo, basis, pts, transform=t), T, _variants(T))


def _only(*what):
    return type("InputRepresentation_" + "_".join(w.replace("-", "") for w in what), (InputRepresentation,), {"WHAT": list(what), "__doc__": InputRepresentation.__doc__})


Evals = _only("eval", "transform-matrix")
Density = _only("density", "density-derived")
Stress = _only("stress")
PointCharge = _only("point_charge")
Esp = _only("esp", "point_charge")
Moment = _only("moment")
Transformation = _only("transformation")
Assembly = _only("shell", "transform-matrix")
