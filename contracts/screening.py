"""Contracts for C20 (overlap screening, gbasis/integrals/overlap.py)."""
import numpy as np

from engine import bind

from .common import Frame, PathLog, make_shell, tag


def _shell(M, pfx, l, K, Mn, coord):
    L = (l + 1) * (l + 2) // 2
    return make_shell(M, l, coord, M.vec(pfx + "d", (K, Mn)), M.vec(pfx + "e", K, "pos"), norm_cont=M.vec(pfx + "n", (Mn, L), "pos"))


class IsScreened:
    """is_integral_screened: False for None; TypeError for bool; otherwise
    |R2 - R1| > sqrt(-(a+b)/(a b) ln eps) with a, b the smallest exponent of each shell (0 < eps < 1)"""

    function = "gbasis.integrals.overlap.is_integral_screened"
    fp = True  # the decision on the unmodified float64 code at sampled inputs (bounded), incl. tight shells with tiny tolerances
    fp_nsamp = (4, 12)  # (where eps ** (a + b) underflows although the documented cutoff is perfectly representable)

    def fp_shapes(self, tier):
        return [dict(K=[1, 1]), dict(K=[2, 2]), dict(K=[1, 1], profile="tight"), dict(K=[2, 1], profile="tight")]

    def fp_domain_for(self, shape):
        if shape.get("profile") == "tight":
            return {"pos": (20.0, 500.0), "by_prefix": {"eps": (1e-16, 1e-6), "pd": (0.3, 1.5), "qd": (0.3, 1.5)}, "real": 1.2, "zero_prob": 0.0}
        return {"pos": (0.05, 20.0), "by_prefix": {"eps": (1e-14, 0.5), "pd": (0.3, 1.5), "qd": (0.3, 1.5)}, "real": 3.0, "zero_prob": 0.05}

    def shapes(self, tier):
        ks = [(1, 1), (2, 1), (1, 2), (2, 2)] + ([(3, 2), (1, 4)] if tier == "thorough" else [])
        return [dict(K=list(k)) for k in ks] + [dict(K=[1, 1], what="none-bool")]

    def run(self, shape, M):
        ov = M.mods["gbasis.integrals.overlap"]
        Ka, Kb = shape["K"]
        A, B = M.vec("A", 3), M.vec("B", 3)
        s1, s2 = _shell(M, "p", 0, Ka, 1, A), _shell(M, "q", 1, Kb, 1, B)
        if shape.get("what") == "none-bool":
            M.true("screened/none-means-no-screening", ov.is_integral_screened(s1, s2, None) is False, "")
            M.raises("screened/rejects-bool-true", lambda: ov.is_integral_screened(s1, s2, True), TypeError)
            M.raises("screened/rejects-bool-false", lambda: ov.is_integral_screened(s1, s2, False), TypeError)
            return
        eps = M.pos("eps")
        pre = [M.atom(eps, "<", 1)]
        fr = Frame(A=A, B=B, e1=s1.exps, e2=s2.exps)
        paths = M.paths(lambda: ov.is_integral_screened(s1, s2, M.scalar(eps)), assumptions=pre if M.symbolic else ())
        fr.check(M, "screened")
        sa, sb, sA, sB = M.to_spec(s1.exps), M.to_spec(s2.exps), M.to_spec(A), M.to_spec(B)
        seps = M.to_spec(eps) if not M.symbolic else eps
        L = M.SF.log(seps)
        R2 = M.SF.num(0)
        for x in range(3):
            R2 = R2 + (sB[x] - sA[x]) * (sB[x] - sA[x])
        # documented rule, squared (both sides non-negative): R^2 * a*b > -(a+b) ln eps for the minimal a, b
        cases = []
        for i in range(Ka):
            for j in range(Kb):
                is_min = [M.atom(sa[i], "<=", sa[k]) for k in range(Ka)] + [M.atom(sb[j], "<=", sb[k]) for k in range(Kb)]
                cases.append(M.f_and(*is_min, M.atom(R2 * sa[i] * sb[j], ">", -(sa[i] + sb[j]) * L)))
        spec_true = M.f_or(*cases)
        for k, p in enumerate(paths):
            pn = "screened/path%d" % k
            M.feasible(pn + "/feasible", p)
            M.true(pn + "/no-exception", p.exc is None, repr(p.exc))
            if p.exc is not None:
                continue
            res = bool(p.outcome)
            M.true(pn + "/returns-bool", isinstance(p.outcome, (bool, np.bool_)), type(p.outcome).__name__)
            M.implies(pn + "/follows-documented-cutoff", p, spec_true if res else M.f_not(spec_true),
                      "returned %s" % res)


class ScreeningLemmas:
    """real-arithmetic lemmas behind 'lowering the tolerance never removes more blocks' and the
    conservative bound for s shells (z3, with ln strictly increasing and exp/ln inverse instantiated)"""

    function = "lemmas over the contract of is_integral_screened"

    def shapes(self, tier):
        return [dict()]

    def run(self, shape, M):
        if not M.symbolic:
            return
        import z3

        def prove(name, hyps, concl, detail=""):
            import time

            s = z3.Solver()
            s.set("timeout", 20000)
            for h in hyps:
                s.add(h)
            s.add(z3.Not(concl))
            t = time.time()
            r = s.check()
            st = "discharged" if r == z3.unsat else ("failed" if r == z3.sat else "undecided")
            M._rec(name, st, "z3", time.time() - t, detail=detail + ("" if r != z3.sat else " model: %s" % s.model()))

        a, b, a0, b0, R2, e1, e2, L1, L2, E, eps, L, mu, t = z3.Reals("a b a0 b0 R2 e1 e2 L1 L2 E eps L mu t")
        pos = [a > 0, b > 0, a0 > 0, b0 > 0, R2 >= 0]
        # harmonic mean is monotone in both exponents: mu_pq >= mu_min
        prove("lemma/harmonic-mean-monotone", pos + [a >= a0, b >= b0], a * b * (a0 + b0) >= a0 * b0 * (a + b))
        # (2 sqrt(ab)/(a+b))^(3/2) <= 1, i.e. 4ab <= (a+b)^2 : product of primitive norms times (pi/p)^(3/2)
        prove("lemma/normalised-prefactor-at-most-one", pos, 4 * a * b <= (a + b) * (a + b))
        # cutoff is non-increasing in eps: with ln strictly increasing, eps1 <= eps2 < 1 gives
        # screened(eps1) => screened(eps2)
        ln_mono = [z3.Implies(e1 < e2, L1 < L2), z3.Implies(e1 == e2, L1 == L2), z3.Implies(e2 < 1, L2 < 0), z3.Implies(e1 < 1, L1 < 0)]
        prove("lemma/lowering-tolerance-never-screens-more", pos + ln_mono + [0 < e1, e1 <= e2, e2 < 1, R2 * a0 * b0 > -(a0 + b0) * L1],
              R2 * a0 * b0 > -(a0 + b0) * L2)
        # removed s-type primitive pair: exp(-mu R^2) < eps.  t = -mu R^2, E = exp(t), L = ln eps, exp(L) = eps,
        # exp strictly increasing (instance: t < L => E < eps)
        exp_inst = [z3.Implies(t < L, E < eps), E > 0]
        prove("lemma/removed-s-pair-below-tolerance",
              pos + exp_inst + [0 < eps, eps < 1, L < 0, mu * (a0 + b0) >= a0 * b0, R2 * a0 * b0 > -(a0 + b0) * L, t == -mu * R2],
              E < eps)


class OverlapScreenedBlock:
    """Overlap.construct_array_contraction(s1, s2, tol_screen) with is_integral_screened replaced by
    its contract: screened -> fresh exact zeros of shape (M1, L1, M2, L2); otherwise the block equals
    the unscreened one; the tolerance and both shells reach the screening test unchanged."""

    function = "gbasis.integrals.overlap.Overlap.construct_array_contraction(tol_screen=...)"

    def shapes(self, tier):
        return [dict(la=0, lb=0, M=[1, 1]), dict(la=1, lb=2, M=[2, 1]), dict(la=2, lb=0, M=[1, 3])]

    def run(self, shape, M):
        ov = M.mods["gbasis.integrals.overlap"]
        s1 = _shell(M, "p", shape["la"], 1, shape["M"][0], M.vec("A", 3))
        s2 = _shell(M, "q", shape["lb"], 2, shape["M"][1], M.vec("B", 3))
        tol = M.scalar(M.pos("eps"))
        calls = []
        for answer in (True, False):
            def stub(c1, c2, t, _a=answer):
                calls.append((c1, c2, t))
                return _a

            del calls[:]
            fr = Frame(e1=s1.exps, e2=s2.exps, d1=s1.coeffs, d2=s2.coeffs, A=s1.coord, B=s2.coord)
            with bind.patched((ov, "is_integral_screened", stub)):
                out = ov.Overlap.construct_array_contraction(s1, s2, tol_screen=tol)
            fr.check(M, "screened_block/%s" % answer, out)
            M.true("screened_block/%s/pre@is_integral_screened" % answer, len(calls) == 1 and calls[0][0] is s1 and calls[0][1] is s2 and calls[0][2] is tol,
                   "shells and tolerance forwarded to the screening test")
            ref = ov.Overlap.construct_array_contraction(s1, s2)
            want = (shape["M"][0], (shape["la"] + 1) * (shape["la"] + 2) // 2, shape["M"][1], (shape["lb"] + 1) * (shape["lb"] + 2) // 2)
            out = M.shaped("screened_block/%s/shape" % answer, out, want)
            for idx in np.ndindex(*want):
                M.eq("screened_block/%s/out%s" % (answer, tag(idx)), out[idx], 0 if answer else ref[idx])
        # default: no tolerance means the screening test is asked with None
        del calls[:]

        def stub2(c1, c2, t):
            calls.append(t)
            return False

        with bind.patched((ov, "is_integral_screened", stub2)):
            ov.Overlap.construct_array_contraction(s1, s2)
        M.true("screened_block/default-is-none", calls == [None], str(calls))


class IsScreenedAnyK:
    """UNBOUNDED in the number of primitives: the built-in `min` is replaced by its contract inside the module
    (min(seq) returns some element of seq that is <= every element: here an opaque positive symbol per shell), so
    the verdict does not depend on how many primitives the shells have:
        screened  <=>  |R2 - R1|^2 * a_min * b_min > -(a_min + b_min) ln eps          (0 < eps < 1)"""

    function = "gbasis.integrals.overlap.is_integral_screened (any number of primitives)"

    def shapes(self, tier):
        return [dict(K=[3, 5])]

    def run(self, shape, M):
        ov = M.mods["gbasis.integrals.overlap"]
        Ka, Kb = shape["K"]
        A, B = M.vec("A", 3), M.vec("B", 3)
        s1, s2 = _shell(M, "p", 0, Ka, 1, A), _shell(M, "q", 1, Kb, 1, B)
        amin, bmin = M.pos("amin"), M.pos("bmin")
        eps = M.pos("eps")
        calls = PathLog()

        def min_contract(seq):
            calls.append(seq)
            if seq is s1.exps:
                return amin
            if seq is s2.exps:
                return bmin
            raise AssertionError("min() called on something that is not the exponent array of one of the two shells")

        def body():
            calls.begin()
            with bind.patched((ov, "min", min_contract)):
                return ov.is_integral_screened(s1, s2, M.scalar(eps))

        paths = M.paths(body, assumptions=[M.atom(eps, "<", 1)] if M.symbolic else ())
        M.true("screened_anyK/pre@min", calls.every(lambda cs: any(c is s1.exps for c in cs) and any(c is s2.exps for c in cs) and all(c is s1.exps or c is s2.exps for c in cs)),
               "min() is asked about the exponent arrays of both shells and about nothing else (on every path; order and repetition are free)")
        sA, sB = M.to_spec(A), M.to_spec(B)
        sa, sb = (M.to_spec(amin), M.to_spec(bmin)) if not M.symbolic else (amin, bmin)
        seps = M.to_spec(eps) if not M.symbolic else eps
        L = M.SF.log(seps)
        R2 = M.SF.num(0)
        for x in range(3):
            R2 = R2 + (sB[x] - sA[x]) * (sB[x] - sA[x])
        spec_true = M.atom(R2 * sa * sb, ">", -(sa + sb) * L)
        for k, p in enumerate(paths):
            pn = "screened_anyK/path%d" % k
            M.feasible(pn + "/feasible", p)
            M.true(pn + "/no-exception", p.exc is None, repr(p.exc))
            if p.exc is None:
                M.implies(pn + "/follows-documented-cutoff", p, spec_true if bool(p.outcome) else M.f_not(spec_true), "returned %s" % bool(p.outcome))
