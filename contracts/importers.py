"""Contracts for C18: make_contractions, from_pyscf (run on tracked argument objects: order,
placement, types, frame) and the run-time round-trip contract parse(render(B, layout)) == B of the two
file parsers (bounded: generated files only -- no contract within reach of the string theories of
z3/cvc5 decides re.split with these patterns)."""
import itertools
import os
import random
import tempfile

import numpy as np

from .common import Frame, tag

L_LETTERS = "spdfghik"


def _stub_norm(M):
    """constructing shells calls assign_norm_cont (C01 is its contract); replaced by a recorder"""
    cmod = M.mods["gbasis.contractions"]
    real = cmod.GeneralizedContractionShell.assign_norm_cont

    def stub(self):
        self.norm_cont = "norm-assigned"

    cmod.GeneralizedContractionShell.assign_norm_cont = stub
    return lambda: setattr(cmod.GeneralizedContractionShell, "assign_norm_cont", real)


class MakeContractions:
    function = "gbasis.parsers.make_contractions"

    def shapes(self, tier):
        out = []
        mols = [["H"], ["H", "H"], ["He", "H", "He"], ["Li", "H", "H", "Li", "He"]]
        for atoms in mols:
            for kind in ("str-cartesian", "str-p", "list", "tuple", "list-mixed-short"):
                out.append(dict(atoms=atoms, kind=kind))
        out.append(dict(atoms=["H"], kind="rejects"))
        return out

    def run(self, shape, M):
        par = M.mods["gbasis.parsers"]
        restore = _stub_norm(M)
        try:
            self._run(shape, M, par)
        finally:
            restore()

    def _run(self, shape, M, par):
        nshell = {"H": 1, "He": 2, "Li": 3}
        basis_dict = {}
        for el, ns in nshell.items():
            basis_dict[el] = [(l, M.vec("%se%d" % (el, l), 2 + l, "pos"), M.vec("%sc%d" % (el, l), (2 + l, 1 + l % 2))) for l in range(ns)]
        atoms = list(shape["atoms"])
        coords = M.vec("X", (len(atoms), 3))
        total = sum(nshell[a] for a in atoms)
        kind = shape["kind"]
        f = par.make_contractions
        if kind == "rejects":
            M.raises("make/rejects/atoms-str", lambda: f(basis_dict, "H", coords, "c"), TypeError)
            M.raises("make/rejects/coords-1d", lambda: f(basis_dict, atoms, coords[0], "c"), TypeError)
            M.raises("make/rejects/count", lambda: f(basis_dict, atoms + ["H"], coords, "c"), ValueError)
            M.raises("make/rejects/type-string", lambda: f(basis_dict, atoms, coords, "x"), ValueError)
            M.raises("make/rejects/type-length", lambda: f(basis_dict, atoms, coords, ["c"] * (total + 1)), ValueError)
            return
        if kind == "str-cartesian":
            ct, want = "cartesian", ["cartesian"] * total
        elif kind == "str-p":
            ct, want = "p", ["spherical"] * total
        else:
            names = [("c", "spherical", "p", "cartesian")[i % 4] for i in range(total)]
            want = [{"c": "cartesian", "p": "spherical"}.get(n, n) for n in names]
            ct = list(names) if kind.startswith("list") else tuple(names)
        before = list(ct) if not isinstance(ct, str) else ct
        atoms_arg = tuple(atoms) if kind == "tuple" else atoms
        dict_before = {k: list(v) for k, v in basis_dict.items()}
        fr = Frame(coords=coords, atoms=atoms)
        try:
            res = f(basis_dict, atoms_arg, coords, ct)
        except Exception as e:  # noqa
            M.true("make/accepts-%s" % type(ct).__name__, False, "raised %s: %s" % (type(e).__name__, e))
            return
        M.true("make/accepts-%s" % type(ct).__name__, True, "")
        fr.check(M, "make")
        after = list(ct) if not isinstance(ct, str) else ct
        M.true("make/frame/coord_types", after == before and type(ct) in (str, list, tuple), "coord_types before %s after %s" % (before, after))
        M.true("make/frame/basis_dict", all(len(basis_dict[k]) == len(dict_before[k]) and all(x is y for x, y in zip(basis_dict[k], dict_before[k])) for k in basis_dict), "")
        M.true("make/count", len(res) == total and isinstance(res, tuple), "%d shells" % len(res))
        k = 0
        for i, a in enumerate(atoms):
            for (l, exps, coeffs) in basis_dict[a]:
                if k >= len(res):
                    break
                sh = res[k]
                name = "make/shell%d" % k
                M.true(name + "/angmom", sh.angmom == l, "")
                M.true(name + "/data", sh.exps is exps and (sh.coeffs is coeffs or np.shares_memory(sh.coeffs, coeffs)), "exponents / coefficients are the arrays of the dictionary")
                same = all(bool(x is y or x == y) for x, y in zip(np.asarray(sh.coord, dtype=object), np.asarray(coords[i], dtype=object)))
                M.true(name + "/coord", same, "centre = coordinates of atom %d" % i)
                M.true(name + "/icenter", sh.icenter == i, str(sh.icenter))
                M.true(name + "/coord_type", sh.coord_type == want[k], "%s, requested %s" % (sh.coord_type, want[k]))
                k += 1
        # repeated call with the same argument objects
        try:
            res2 = f(basis_dict, atoms_arg, coords, ct)
            ok = len(res2) == len(res) and all(a.coord_type == b.coord_type and a.angmom == b.angmom and a.exps is b.exps and a.icenter == b.icenter for a, b in zip(res, res2))
            M.true("make/repeatable", ok, "second call with the same objects gives the same shells")
        except Exception as e:  # noqa
            M.true("make/repeatable", False, "second call raised %s: %s" % (type(e).__name__, e))


class FromPyscf:
    function = "gbasis.wrappers.from_pyscf"

    def shapes(self, tier):
        return [dict(cart=c, atoms=a) for c in (True, False) for a in (["H"], ["O", "H", "H"])] + [dict(what="rejects", cart=True, atoms=["H"])]

    def run(self, shape, M):
        wr = M.mods["gbasis.wrappers"]
        restore = _stub_norm(M)
        try:
            class Mole:  # the function only looks at the class name and these attributes
                pass

            mol = Mole()
            if shape.get("what") == "rejects":
                M.raises("pyscf/rejects/not-mole", lambda: wr.from_pyscf(object()), ValueError)
                return
            rows = {"H": [[0, [1.5, 0.25], [0.5, 0.75]], [1, [0.8, 1.0]]],
                    "O": [[0, [9.0, 0.1, 0.3], [2.0, 0.4, -0.2], [0.5, 0.5, 1.0]], [1, [1.1, 1.0]], [2, [0.7, 1.0]]]}
            mol._basis = rows
            mol._atom = [(a, [0.1 * i, -0.2 * i, 0.3 + i]) for i, a in enumerate(shape["atoms"])]
            mol.cart = shape["cart"]
            import copy

            snap = copy.deepcopy((mol._basis, mol._atom))
            res = wr.from_pyscf(mol)
            M.true("pyscf/frame", (mol._basis, mol._atom) == snap, "molecule object unchanged")
            exp = []
            for a, xyz in mol._atom:
                for sh in rows[a]:
                    ec = np.array(sh[1:], dtype=float)
                    exp.append((sh[0], xyz, ec[:, 0], ec[:, 1:]))
            M.true("pyscf/count", len(res) == len(exp) and isinstance(res, tuple), "")
            for k, (sh, (l, xyz, e, c)) in enumerate(zip(res, exp)):
                name = "pyscf/shell%d" % k
                M.true(name + "/angmom", sh.angmom == l, "")
                M.true(name + "/coord", np.array_equal(np.asarray(sh.coord, dtype=float), np.array(xyz)), "")
                M.true(name + "/exps", np.array_equal(np.asarray(sh.exps, dtype=float), e), "")
                M.true(name + "/coeffs", np.array_equal(np.asarray(sh.coeffs, dtype=float), c), "")
                M.true(name + "/coord_type", sh.coord_type == ("cartesian" if shape["cart"] else "spherical"), "")
                M.true(name + "/p-order", sh.angmom != 1 or tuple(sh.angmom_components_sph) == ("c1", "s1", "c0"), "")
        finally:
            restore()


# ---------------------------------------------------------------------------------------------
# bounded: round trip of generated files


def _fmt(x, style, rng):
    if style == "plain":
        s = "%.10f" % x
    else:
        s = "%.10E" % x
        if style == "D":
            s = s.replace("E", "D")
    return s


def random_basis(rng, nelem, small=False):
    elems = rng.sample(["H", "He", "Li", "C", "N", "O", "Ne", "Na", "Cl", "Ar", "K", "Fe", "U"], nelem)
    basis = {}
    for el in elems:
        shells = []
        prev = None
        for _ in range(rng.randint(1, 3 if small else 8)):
            K = rng.randint(1, 10)
            exps = sorted([round(rng.uniform(0.01, 5000.0), 6) for _ in range(K)], reverse=True)
            if prev is not None and rng.random() < 0.35:
                exps = list(prev)  # consecutive shells sharing their exponents (S then SP, P then P, ...) are legal
                K = len(exps)
            prev = exps
            if rng.random() < 0.2:
                cols = [[round(rng.uniform(-2, 2), 7) or 0.5 for _ in range(K)] for _ in range(2)]
                shells.append(("sp", exps, cols))
            else:
                l = rng.randint(0, 7)
                ncol = rng.randint(1, 6)
                cols = [[round(rng.uniform(-2, 2), 7) or 0.5 for _ in range(K)] for _ in range(ncol)]
                shells.append((L_LETTERS[l], exps, cols))
        basis[el] = shells
    return elems, basis


def render_nwchem(elems, basis, layout, rng):
    lines = ["# header %d" % i for i in range(layout["header"])]
    if layout["header"] >= 2:
        lines[1] = 'BASIS "ao basis" PRINT'
    for el in elems:
        if layout["comments"]:
            lines.append("#BASIS SET: generated")
        for lab, exps, cols in basis[el]:
            lines.append("%s    %s" % (el, lab.upper() if layout["upper"] else lab))
            inner = layout.get("inner")
            if inner == "comment":
                lines.append("# exponent   coefficient(s)")
            for k, e in enumerate(exps):
                if k and inner == "blank":
                    lines.append("   " if k % 2 else "")
                if k and inner == "comment" and k == len(exps) - 1:
                    lines.append("#   most diffuse primitive")
                lines.append("      " + "       ".join([_fmt(e, layout["style"], rng)] + [_fmt(c[k], layout["style"], rng) for c in cols]))
            if layout["blank"]:
                lines.append("")
    lines.append("END")
    return "\n".join(lines) + "\n"


def render_gbs(elems, basis, layout, rng):
    lines = ["! header %d" % i for i in range(layout["header"])]
    for el in elems:
        lines.append("%s     0" % el)
        for lab, exps, cols in basis[el]:
            groups = [cols] if lab == "sp" else [[c] for c in cols]
            for g in groups:
                lines.append("%s   %d   1.00" % (lab.upper(), len(exps)))
                for k, e in enumerate(exps):
                    lines.append("      " + "       ".join([_fmt(e, layout["style"], rng)] + [_fmt(c[k], layout["style"], rng) for c in g]))
        lines.append("****")
        if layout["blank"]:
            lines.append("")
    return "\n".join(lines) + "\n"


def written_columns(basis, el):
    """flat list of (l, exps, column) in file order (SP split into s then p)"""
    out = []
    for lab, exps, cols in basis[el]:
        if lab == "sp":
            out.append((0, exps, cols[0]))
            out.append((1, exps, cols[1]))
        else:
            for c in cols:
                out.append((L_LETTERS.index(lab), exps, c))
    return out


def parsed_columns(shells):
    out = []
    for l, exps, coeffs in shells:
        c = np.asarray(coeffs, dtype=float)
        if c.ndim == 1:
            c = c[:, None]
        for j in range(c.shape[1]):
            out.append((int(l), [float(x) for x in exps], [float(x) for x in c[:, j]]))
    return out


def _same_cols(a, b):
    if len(a) != len(b):
        return False
    for (l1, e1, c1), (l2, e2, c2) in zip(a, b):
        if l1 != l2 or len(e1) != len(e2) or len(c1) != len(c2):
            return False
        if any(abs(x - y) > 1e-9 * max(1.0, abs(y)) for x, y in zip(e1, e2)) or any(abs(x - y) > 1e-9 * max(1.0, abs(y)) for x, y in zip(c1, c2)):
            return False
    return True


class ParserRoundTrip:
    """BOUNDED (run-time contract on generated files, not a proof): parse(render(B, layout)) == B"""

    function = "gbasis.parsers.parse_nwchem / parse_gbs"
    bounded = True

    def shapes(self, tier):
        out = []
        n = 2 if tier == "quick" else 12
        for fmt in ("nwchem", "gbs"):
            for header in (0, 1, 2, 12):
                for style in ("E", "D", "plain"):
                    for blank in (False, True):
                        out.append(dict(fmt=fmt, header=header, style=style, blank=blank, comments=(header % 2 == 0), upper=not blank, n=n))
        # NWChem: comment lines and blank lines inside a shell block (between the header and the last primitive)
        for inner in ("comment", "blank"):
            for style in ("E", "plain"):
                out.append(dict(fmt="nwchem", header=1, style=style, blank=(inner == "comment"), comments=True, upper=True, n=n, inner=inner))
        return out

    def run(self, shape, M):
        par = M.mods["gbasis.parsers"]
        seed = int(os.environ.get("VERIF_SEED", "0"))
        import hashlib

        rng = random.Random(int(hashlib.sha1(repr((seed, shape["fmt"], shape["header"], shape["style"], shape["blank"], shape.get("inner"))).encode()).hexdigest()[:12], 16))
        layout = shape
        tmpdir = tempfile.mkdtemp(prefix="gbasis-verif-")
        try:
            for i in range(shape["n"]):
                elems, basis = random_basis(rng, rng.randint(1, 5), small=(i % 2 == 0))
                text = (render_nwchem if shape["fmt"] == "nwchem" else render_gbs)(elems, basis, layout, rng)
                path = os.path.join(tmpdir, "b%d.%s" % (i, shape["fmt"]))
                with open(path, "w") as fh:
                    fh.write(text)
                name = "parse_%s/file%d" % (shape["fmt"], i)
                try:
                    res = (par.parse_nwchem if shape["fmt"] == "nwchem" else par.parse_gbs)(path)
                except Exception as e:  # noqa
                    M._rec(name + "/parses", "failed", "run", 0.0, detail="%s: %s" % (type(e).__name__, e), cex={"env": {}}, file=text[:400])
                    continue
                M.true(name + "/elements", list(res.keys()) == elems, "parsed %s, written %s" % (list(res.keys()), elems))
                for el in elems:
                    if el in res:
                        ok = _same_cols(parsed_columns(res[el]), written_columns(basis, el))
                        M.true(name + "/shells[%s]" % el, ok, "angular momentum, exponents and coefficient columns in file order")
                # what the parser returns is the argument of make_contractions: neither a valid nor a deliberately invalid call (an
                # element the file does not contain) may alter it - not even by adding a key
                if i == 0:
                    import copy

                    def snap(d):
                        return [(k, [(int(l_), np.asarray(e_).tolist(), np.asarray(c_).tolist()) for l_, e_, c_ in v]) for k, v in d.items()]

                    before = snap(res)
                    restore = _stub_norm(M)  # the shells' normalisation is not the subject here (its contract is C01)
                    try:
                        try:
                            par.make_contractions(res, [elems[0]], np.zeros((1, 3)), "spherical")
                        except Exception as e:  # noqa
                            M.true(name + "/make_contractions/accepts-parsed-basis", False, "%s: %s" % (type(e).__name__, e))
                        M.true(name + "/make_contractions/frame[valid call]", snap(res) == before, "the parsed basis is unchanged by a valid call")
                        raised = None
                        try:
                            par.make_contractions(res, ["Qq"], np.zeros((1, 3)), "spherical")
                        except Exception as e:  # noqa
                            raised = e
                    finally:
                        restore()
                    M.true(name + "/make_contractions/frame[unknown element]", snap(res) == before,
                           "the parsed basis is unchanged by a call naming an element it does not contain (keys before %s, after %s)" % ([k for k, _ in before], list(res.keys())))
                    M.true(name + "/make_contractions/unknown-element-is-not-silently-dropped", raised is not None,
                           "a molecule with an element the basis file lacks cannot be given 'each atom's shells': the call must not return a basis without it")
        finally:
            import shutil

            shutil.rmtree(tmpdir, ignore_errors=True)
