#!/usr/bin/env python3
"""regenerate MANIFEST.json from manifest_meta.json (keeps it valid at all times)"""
import json, os, sys
HERE = os.path.dirname(os.path.abspath(__file__))
meta = json.load(open(os.path.join(HERE, "manifest_meta.json")))
props = [json.loads(l) for l in open(os.path.join(HERE, "properties.jsonl"))]
checks = []
na = []
for p in props:
    pid = p["id"]
    m = meta["checks"].get(pid)
    if m is None:
        na.append({"property_id": pid, "reason": meta["not_applicable"].get(pid, "no check built yet")})
        continue
    checks.append({
        "property_id": pid,
        "quick_cmd": "./vcheck %s --tier quick" % pid,
        "thorough_cmd": "./vcheck %s --tier thorough" % pid,
        "evidence_file": "/verif/evidence/%s.json" % pid,
        "replay_cmd_template": "./vcheck --replay {path}",
        "engine": "sre",
        "level_claimed": {"category": m["level"], "text": m["text"], "design_ref": m.get("design_ref", "DESIGN.md section 4 " + pid)},
        "level_note": m["note"],
        "technique": m["technique"],
    })
man = {
    "version": 1,
    "setup_cmd": "sh setup.sh",
    "hooks": {"guard": "GBASIS_VERIF", "enable": "none needed: module globals are rebound from outside at run time; no source hooks exist",
              "baseline_off_cmd": "cd /repo && /venv/bin/python -m pytest -ra -q -p no:cacheprovider --timeout=900 --continue-on-collection-errors",
              "source_commits": meta.get("source_commits", []), "add_only": True},
    "engines": [{"name": "sre", "path": "/verif/engine", "serves_properties": [c["property_id"] for c in checks],
                 "kind_free_text": "contract-based deductive verification: the real gbasis functions are executed on symbolic reals (object arrays) against sidecar contracts; obligations discharged by an exact normal-form decision procedure (polyid) and z3/cvc5"}],
    "checks": checks,
    "notes": meta.get("notes", ""),
    "not_applicable": na,
}
json.dump(man, open(os.path.join(HERE, "MANIFEST.json"), "w"), indent=1)
print("checks:", [c["property_id"] for c in checks], "n/a:", [n["property_id"] for n in na])
