"""S0 / S2: Cartesian Gaussian primitives, their normalisation defined through S1 (not copied from
gbasis), contracted shell blocks.  Generic over the number field."""
from fractions import Fraction

from .gauss1d import Gauss1D, dfact


class ShellSpec:
    """plain data: centre (3), exps (K), coeffs (K x M), comps (L x 3 ints)"""

    def __init__(self, coord, exps, coeffs, comps):
        self.coord = coord
        self.exps = list(exps)
        self.coeffs = coeffs
        self.comps = [tuple(int(x) for x in c) for c in comps]
        self.K = len(self.exps)
        self.M = len(coeffs[0]) if self.K else 0
        self.L = len(self.comps)


def self_overlap_prim(F, alpha, comp):
    """int g^2 for g = x^ax y^ay z^az exp(-alpha r^2) (S1 with p = 2 alpha, both factors at one centre)"""
    r = F.num(1)
    for n in comp:
        r = r * F.num(dfact(2 * n - 1)) / (4 * alpha) ** n * F.sqrt(F.pi / (2 * alpha))
    return r


def prim_norm(F, alpha, comp):
    """N(alpha, a) = (int g^2)^(-1/2)"""
    return F.pow(self_overlap_prim(F, alpha, comp), Fraction(-1, 2))


def contracted_block(F, sa, sb, prim_integral, norms=None):
    """sum_{pa,pb} d_a[pa,ma] N_a[ca,pa] d_b[pb,mb] N_b[cb,pb] * prim_integral(pa, pb, ca, cb)
    -> nested list [ma][ca][mb][cb]"""
    Na = [[prim_norm(F, sa.exps[p], c) for p in range(sa.K)] for c in sa.comps]
    Nb = [[prim_norm(F, sb.exps[p], c) for p in range(sb.K)] for c in sb.comps]
    prim = {}
    for ia, ca in enumerate(sa.comps):
        for ib, cb in enumerate(sb.comps):
            for pa in range(sa.K):
                for pb in range(sb.K):
                    prim[ia, ib, pa, pb] = prim_integral(pa, pb, ca, cb) * Na[ia][pa] * Nb[ib][pb]
    out = {}
    for ma in range(sa.M):
        for ia in range(sa.L):
            for mb in range(sb.M):
                for ib in range(sb.L):
                    tot = F.num(0)
                    for pa in range(sa.K):
                        for pb in range(sb.K):
                            tot = tot + prim[ia, ib, pa, pb] * sa.coeffs[pa][ma] * sb.coeffs[pb][mb]
                    out[ma, ia, mb, ib] = tot
    return out


class PairTables:
    """the 1-D closed-form tables for every primitive pair and axis of a shell pair"""

    def __init__(self, F, sa, sb, C=None):
        self.g = {}
        for pa in range(sa.K):
            for pb in range(sb.K):
                for ax in range(3):
                    self.g[pa, pb, ax] = Gauss1D(F, sa.exps[pa], sa.coord[ax], sb.exps[pb], sb.coord[ax],
                                                 C[ax] if C is not None else None)


def overlap_block(F, sa, sb):
    T = PairTables(F, sa, sb)

    def prim(pa, pb, ca, cb):
        r = F.num(1)
        for ax in range(3):
            r = r * T.g[pa, pb, ax].G(ca[ax], cb[ax], 0)
        return r

    return contracted_block(F, sa, sb, prim)


def moment_block(F, sa, sb, C, order):
    T = PairTables(F, sa, sb, C)

    def prim(pa, pb, ca, cb):
        r = F.num(1)
        for ax in range(3):
            r = r * T.g[pa, pb, ax].G(ca[ax], cb[ax], order[ax])
        return r

    return contracted_block(F, sa, sb, prim)


# ---- S3: differential operators on polynomial x Gaussian integrands, via S1 -----------------
from .gauss1d import dgauss_poly  # noqa: E402


def d1d(g, i, j, order):
    """int (x-A)^i e^{-a(x-A)^2} d^order/dx^order [ (x-B)^j e^{-b(x-B)^2} ] dx"""
    tot = None
    for m, c in dgauss_poly(j, g.b, order).items():
        term = g.G(i, m, 0) * c
        tot = term if tot is None else tot + term
    return tot


def kinetic_block(F, sa, sb):
    T = PairTables(F, sa, sb)

    def prim(pa, pb, ca, cb):
        tot = F.num(0)
        for ax in range(3):
            r = d1d(T.g[pa, pb, ax], ca[ax], cb[ax], 2)
            for o in range(3):
                if o != ax:
                    r = r * T.g[pa, pb, o].G(ca[o], cb[o], 0)
            tot = tot + r
        return tot * F.num(-1) / 2

    return contracted_block(F, sa, sb, prim)


def momentum_block(F, sa, sb, ax):
    """<a| -i d/dx_ax |b>"""
    T = PairTables(F, sa, sb)

    def prim(pa, pb, ca, cb):
        r = d1d(T.g[pa, pb, ax], ca[ax], cb[ax], 1)
        for o in range(3):
            if o != ax:
                r = r * T.g[pa, pb, o].G(ca[o], cb[o], 0)
        return r * (-F.imag())

    return contracted_block(F, sa, sb, prim)


def angmom_block(F, sa, sb, ax, origin):
    """<a| -i (r x grad)_ax |b> about ``origin``"""
    T = PairTables(F, sa, sb, origin)
    u, v = (ax + 1) % 3, (ax + 2) % 3  # (r x grad)_ax = r_u d_v - r_v d_u

    def prim(pa, pb, ca, cb):
        g = T.g
        s = g[pa, pb, ax].G(ca[ax], cb[ax], 0)
        t1 = g[pa, pb, u].G(ca[u], cb[u], 1) * d1d(g[pa, pb, v], ca[v], cb[v], 1)
        t2 = d1d(g[pa, pb, u], ca[u], cb[u], 1) * g[pa, pb, v].G(ca[v], cb[v], 1)
        return s * (t1 - t2) * (-F.imag())

    return contracted_block(F, sa, sb, prim)
