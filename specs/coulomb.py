"""S4 / S5 / S6: Coulomb integrals over Cartesian Gaussians *defined by differentiation* of the
s-type base integrals (trusted mathematics), independently of the Obara-Saika / Head-Gordon-Pople
recursions used by gbasis.

    one electron :  (s_a | 1/r_C | s_b) = (2 pi / p) exp(-mu |AB|^2) F_0(p |PC|^2)
    two electron :  (s_a s_b | s_c s_d) = 2 pi^(5/2) / (zeta eta sqrt(zeta+eta))
                                           exp(-mu_ab |AB|^2) exp(-mu_cd |CD|^2) F_0(rho |PQ|^2)

With G_i = (x-A)^i exp(-alpha (x-A)^2):  dG_i/dA = 2 alpha G_{i+1} - i G_{i-1}, hence under the integral

    Theta_{i+1} = ( d/dA Theta_i + i Theta_{i-1} ) / (2 alpha)

and dF_m/dT = -F_{m+1}.  Everything is expressed in the variables U = A-B, V = C-D and
W = P-C (one electron) or P-Q (two electron); d/dA = d/dU + (a/zeta) d/dW, d/dB = -d/dU + (b/zeta) d/dW,
d/dC = d/dV - (c/eta) d/dW, d/dD = -d/dV - (d/eta) d/dW (one electron: only A and B, W = P - C).
A term is  coef * U^u V^v W^w * F_m(kappa |W|^2) * [Gaussian prefactors], keyed by (u, v, w, m).
Generic over the number field.
"""


class Theta:
    """polynomial in U, V, W and the Boys orders"""

    __slots__ = ("t",)

    def __init__(self, t=None):
        self.t = t or {}

    def add(self, key, c):
        t = self.t
        if key in t:
            t[key] = t[key] + c
        else:
            t[key] = c

    def axpy(self, other, c):
        for k, v in other.t.items():
            self.add(k, v * c)


class CoulombSpec:
    def __init__(self, F, centers, mu_u, mu_v, kappa):
        """centers: list of dicts(alpha=, du=+1/-1/0, dv=+1/-1/0, dw=coefficient of d/dW)"""
        self.F = F
        self.centers = centers
        self.mu_u, self.mu_v, self.kappa = mu_u, mu_v, kappa
        self.memo = {}
        zero = (0, 0, 0)
        base = Theta()
        base.add((zero, zero, zero, 0), F.num(1))
        self.memo[tuple(zero for _ in centers)] = base

    def _d(self, th, which, ax):
        """partial derivative with respect to U_ax / V_ax / W_ax (Gaussian and Boys factors included)"""
        out = Theta()
        pos = {"u": 0, "v": 1, "w": 2}[which]
        for key, c in th.t.items():
            e = key[pos]
            m = key[3]
            if e[ax] > 0:
                ne = list(e)
                ne[ax] -= 1
                k2 = list(key)
                k2[pos] = tuple(ne)
                out.add(tuple(k2), c * e[ax])
            ne = list(e)
            ne[ax] += 1
            k2 = list(key)
            k2[pos] = tuple(ne)
            if which == "u":
                out.add(tuple(k2), c * (self.mu_u * -2))
            elif which == "v":
                out.add(tuple(k2), c * (self.mu_v * -2))
            else:
                k2[3] = m + 1
                out.add(tuple(k2), c * (self.kappa * -2))
        return out

    def _dcenter(self, th, ci, ax):
        cen = self.centers[ci]
        out = Theta()
        if cen.get("du"):
            out.axpy(self._d(th, "u", ax), cen["du"])
        if cen.get("dv"):
            out.axpy(self._d(th, "v", ax), cen["dv"])
        out.axpy(self._d(th, "w", ax), cen["dw"])
        return out

    def theta(self, idx):
        """idx: tuple over centres of (ix, iy, iz)"""
        idx = tuple(tuple(i) for i in idx)
        if idx in self.memo:
            return self.memo[idx]
        # lower the last non-zero index
        for ci in range(len(idx) - 1, -1, -1):
            for ax in (2, 1, 0):
                if idx[ci][ax] > 0:
                    n = idx[ci][ax] - 1
                    low = [list(i) for i in idx]
                    low[ci][ax] = n
                    th_n = self.theta(low)
                    res = Theta()
                    inv = self.F.num(1) / (self.centers[ci]["alpha"] * 2)
                    res.axpy(self._dcenter(th_n, ci, ax), inv)
                    if n > 0:
                        low[ci][ax] = n - 1
                        res.axpy(self.theta(low), inv * n)
                    self.memo[idx] = res
                    return res
        raise AssertionError

    def evaluate(self, th, U, V, W, boys, prefactor):
        """numerical / symbolic value: sum coef U^u V^v W^w F_m * prefactor"""
        F = self.F
        tot = F.num(0)
        pw = {}

        def power(vec, name, e):
            r = None
            for ax in range(3):
                if e[ax]:
                    k = (name, ax, e[ax])
                    if k not in pw:
                        pw[k] = vec[ax] ** e[ax]
                    r = pw[k] if r is None else r * pw[k]
            return r

        for (u, v, w, m), c in th.t.items():
            term = c * boys(m)
            for vec, name, e in ((U, "u", u), (V, "v", v), (W, "w", w)):
                p = power(vec, name, e) if vec is not None else None
                if p is not None:
                    term = term * p
            tot = tot + term
        return tot * prefactor


def one_electron(F, a, b, A, B, C):
    """returns f(ia, ib) -> (a | 1/|r-C| | b) for unnormalised primitives with exponents a, b"""
    p = a + b
    mu = a * b / p
    P = [(A[x] * a + B[x] * b) / p for x in range(3)]
    U = [A[x] - B[x] for x in range(3)]
    W = [P[x] - C[x] for x in range(3)]
    spec = CoulombSpec(F, [dict(alpha=a, du=1, dw=a / p), dict(alpha=b, du=-1, dw=b / p)], mu, None, p)
    T = (W[0] * W[0] + W[1] * W[1] + W[2] * W[2]) * p
    pref = F.pi * 2 / p * F.exp(-(mu * (U[0] * U[0] + U[1] * U[1] + U[2] * U[2])))
    bo = {}

    def boys(m):
        if m not in bo:
            bo[m] = F.boys(m, T)
        return bo[m]

    def f(ia, ib):
        return spec.evaluate(spec.theta((ia, ib)), U, None, W, boys, pref)

    return f


def two_electron(F, a, b, c, d, A, B, C, D):
    """returns f(ia, ib, ic, id) -> (ab|cd) for unnormalised primitives"""
    zeta, eta = a + b, c + d
    mu_ab, mu_cd = a * b / zeta, c * d / eta
    rho = zeta * eta / (zeta + eta)
    P = [(A[x] * a + B[x] * b) / zeta for x in range(3)]
    Q = [(C[x] * c + D[x] * d) / eta for x in range(3)]
    U = [A[x] - B[x] for x in range(3)]
    V = [C[x] - D[x] for x in range(3)]
    W = [P[x] - Q[x] for x in range(3)]
    spec = CoulombSpec(F, [dict(alpha=a, du=1, dw=a / zeta), dict(alpha=b, du=-1, dw=b / zeta),
                           dict(alpha=c, dv=1, dw=-(c / eta)), dict(alpha=d, dv=-1, dw=-(d / eta))], mu_ab, mu_cd, rho)
    T = (W[0] * W[0] + W[1] * W[1] + W[2] * W[2]) * rho
    pref = (F.pow(F.pi, 2.5) * 2 / (zeta * eta * F.sqrt(zeta + eta))
            * F.exp(-(mu_ab * (U[0] * U[0] + U[1] * U[1] + U[2] * U[2])))
            * F.exp(-(mu_cd * (V[0] * V[0] + V[1] * V[1] + V[2] * V[2]))))
    bo = {}

    def boys(m):
        if m not in bo:
            bo[m] = F.boys(m, T)
        return bo[m]

    def f(ia, ib, ic, id_):
        return spec.evaluate(spec.theta((ia, ib, ic, id_)), U, V, W, boys, pref)

    return f
