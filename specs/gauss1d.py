"""S1 / S3: closed-form one-dimensional Gaussian integrals (trusted mathematics).

    G(i, j, k) = int (x-A)^i (x-B)^j (x-C)^k exp(-a (x-A)^2 - b (x-B)^2) dx

obtained from the Gaussian product rule  a(x-A)^2 + b(x-B)^2 = p (x-P)^2 + mu (A-B)^2  and the
moment formula  int t^n exp(-p t^2) dt = (n-1)!! (2p)^(-n/2) sqrt(pi/p)  (n even; 0 for n odd) by
re-expanding every factor about P -- binomial sums, *no recursion in i, j or k*.  It is therefore
independent of the Obara-Saika recursions used by gbasis.  Generic over the number field F
(engine.fields): the same text runs on symbolic reals, mpmath numbers and floats.
"""
from math import comb


def dfact(n):
    r = 1
    while n > 1:
        r *= n
        n -= 2
    return r


class Gauss1D:
    def __init__(self, F, a, A, b, B, C=None):
        self.F = F
        self.a, self.A, self.b, self.B = a, A, b, B
        p = a + b
        self.p = p
        self.P = (a * A + b * B) / p
        self.mu = a * b / p
        self.PA = self.P - A
        self.PB = self.P - B
        self.PC = (self.P - C) if C is not None else None
        self.pref = F.sqrt(F.pi / p) * F.exp(-(self.mu) * (A - B) * (A - B))
        self._M = {}
        self._pw = {}
        self._G = {}

    def M(self, n):
        """int t^n exp(-p t^2) dt / sqrt(pi/p)"""
        if n % 2:
            return None
        if n not in self._M:
            self._M[n] = self.F.num(dfact(n - 1)) / (2 * self.p) ** (n // 2) if n else self.F.num(1)
        return self._M[n]

    def _pow(self, which, e):
        key = (which, e)
        if key not in self._pw:
            base = {"A": self.PA, "B": self.PB, "C": self.PC}[which]
            self._pw[key] = base**e if e else self.F.num(1)
        return self._pw[key]

    def G(self, i, j=0, k=0):
        key = (i, j, k)
        if key in self._G:
            return self._G[key]
        tot = self.F.num(0)
        for s in range(i + 1):
            for t in range(j + 1):
                for u in range(k + 1):
                    if (s + t + u) % 2:
                        continue
                    term = self.M(s + t + u) * (comb(i, s) * comb(j, t) * comb(k, u))
                    if i - s:
                        term = term * self._pow("A", i - s)
                    if j - t:
                        term = term * self._pow("B", j - t)
                    if k - u:
                        term = term * self._pow("C", k - u)
                    tot = tot + term
        r = tot * self.pref
        self._G[key] = r
        return r

    def Gpoly(self, poly):
        """integral of sum coef * (x-A)^i (x-B)^j (x-C)^k ; poly: {(i,j,k): coef}"""
        tot = self.F.num(0)
        for (i, j, k), c in poly.items():
            tot = tot + self.G(i, j, k) * c
        return tot


def dgauss_poly(j, b, order):
    """d^order/dx^order [ t^j exp(-b t^2) ] = (sum_m c_m t^m) exp(-b t^2), t = x - B.
    returns {m: coefficient} with coefficients polynomial in b (generic arithmetic on b)."""
    poly = {j: 1}
    for _ in range(order):
        new = {}
        for m, c in poly.items():
            if m:
                new[m - 1] = new.get(m - 1, 0) + c * m
            new[m + 1] = new.get(m + 1, 0) + c * (-2) * b
        poly = new
    return poly
