import argparse
import json
import os
import sys
import time


def main():
    ap = argparse.ArgumentParser(prog="vcheck")
    ap.add_argument("prop", nargs="?")
    ap.add_argument("--tier", default=os.environ.get("VERIF_TIER", "quick"), choices=["quick", "thorough"])
    ap.add_argument("--replay")
    ap.add_argument("--jobs", type=int, default=None)
    ap.add_argument("--only", help="substring filter on harness refs (debugging)")
    ap.add_argument("--task", help="run one harness on one JSON shape in-process (debugging)")
    ap.add_argument("--shape")
    ap.add_argument("--update-baseline", action="store_true", help="record obligation counts of the evidence files as the baseline")
    args = ap.parse_args()
    seed = int(os.environ.get("VERIF_SEED", "0"))
    from engine import runner

    if args.update_baseline:
        import glob

        path = os.path.join(runner.VERIF, "baseline_obligations.json")
        base = json.load(open(path)) if os.path.exists(path) else {}
        for f in sorted(glob.glob(os.path.join(runner.VERIF, "evidence", "*.json"))):
            ev = json.load(open(f))
            cov = ev["coverage"]
            if cov.get("failed") or cov.get("undecided"):
                continue
            base.setdefault(ev["property_id"], {})[ev["tier"]] = {"obligations": cov["obligations"], "tasks": cov.get("sym_tasks", 0)}
        json.dump(base, open(path, "w"), indent=1, sort_keys=True)
        print("baseline updated for", sorted(base))
        return 0
    if args.replay:
        doc = json.load(open(args.replay))
        cex = (doc.get("verifier_output") or {}).get("cex") or {}
        if cex.get("env") is None:
            print("no concrete input recorded; verifier output follows")
            print(json.dumps(doc["verifier_output"], indent=1))
            return 1
        name = doc.get("name") or doc["obligation"].split("/", 1)[1].rsplit("@", 1)[0]
        v = runner.native_replay(doc["harness"], doc["shape"], cex["env"], name, doc["property"], 1e-8, doc.get("sample_seed"))
        print(json.dumps(v, indent=1))
        return 1 if v.get("verdict") == "native-disagrees-with-spec" else 0
    if args.task:
        rec = runner.run_task(args.task, json.loads(args.shape))
        bad = [r for r in rec["results"] if r["status"] != "discharged"]
        print(json.dumps({k: v for k, v in rec.items() if k != "results"}, indent=1))
        print(len(rec["results"]), "obligations;", len(bad), "not discharged")
        for r in bad[:10]:
            print({k: (str(v)[:300]) for k, v in r.items()})
        return 0
    from contracts import registry

    if args.prop == "list" or not args.prop:
        for k in sorted(registry.CHECKS):
            print(k, registry.CHECKS[k].level, len(registry.CHECKS[k].harnesses), "harnesses")
        return 0
    check = registry.CHECKS[args.prop]
    if args.only:
        check.harnesses = [h for h in check.harnesses if args.only in h]
        check.filtered = True
    extra = None
    status, ev, names = runner.run_check(check, args.tier, seed, jobs=args.jobs)
    return status


if __name__ == "__main__":
    sys.exit(main())
