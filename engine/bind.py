"""Bring the real gbasis modules (imported from /repo's current working tree) under the symbolic
proxy by rebinding module globals from the outside.  No file in /repo is touched.

Everything substituted is registered in SUBSTITUTIONS and dumped into the evidence files.
"""
import importlib
import os
import sys
import types

from . import sym as S

REPO = os.environ.get("GBASIS_REPO", "/repo")

GBASIS_MODULES = [
    "gbasis.utils",
    "gbasis.contractions",
    "gbasis.spherical",
    "gbasis.base",
    "gbasis.base_one",
    "gbasis.base_two_symm",
    "gbasis.base_two_asymm",
    "gbasis.base_four_symm",
    "gbasis.parsers",
    "gbasis.wrappers",
    "gbasis.integrals._moment_int",
    "gbasis.integrals._diff_operator_int",
    "gbasis.integrals._one_elec_int",
    "gbasis.integrals._two_elec_int",
    "gbasis.integrals.overlap",
    "gbasis.integrals.overlap_asymm",
    "gbasis.integrals.kinetic_energy",
    "gbasis.integrals.moment",
    "gbasis.integrals.momentum",
    "gbasis.integrals.angular_momentum",
    "gbasis.integrals.point_charge",
    "gbasis.integrals.nuclear_electron_attraction",
    "gbasis.integrals.electron_repulsion",
    "gbasis.evals._deriv",
    "gbasis.evals.eval",
    "gbasis.evals.eval_deriv",
    "gbasis.evals.density",
    "gbasis.evals.stress_tensor",
    "gbasis.evals.electrostatic_potential",
]

SUBSTITUTIONS = [
    "GeneralizedContractionShell.assign_norm_cont is wrapped (not altered) so that its division by the self-overlap is attributed to the "
    "trusted precondition 'a contraction is not the zero function' instead of a well-definedness obligation",
    "module global `np` of every gbasis module -> engine.sym.SymNumpy proxy (forwards to numpy; float "
    "buffers become object buffers of exact constants; pi, sqrt, exp, log, abs, allclose, isclose, "
    "linalg.norm act on symbolic reals)",
    "scipy.special.factorial2 / factorial / comb / perm -> exact integer versions (assumed contract "
    "on the dependency: they compute n!!, n!, C(n,k), P(n,k); checked on the reachable argument range by the bounded "
    "harness contracts.numeric:DependencyContracts under C01, C05, C10)",
    "scipy.special.eval_hermite -> exact physicists' Hermite polynomial by recurrence (assumed "
    "contract on the dependency; bounded check as above)",
]

_state = {"mode": None, "saved": {}}


def ensure_path():
    if REPO not in sys.path:
        sys.path.insert(0, REPO)
    # make sure an installed copy of gbasis elsewhere does not shadow the working tree
    import gbasis

    here = os.path.realpath(os.path.dirname(gbasis.__file__))
    want = os.path.realpath(os.path.join(REPO, "gbasis"))
    if here != want:
        raise RuntimeError("gbasis imported from %s, expected %s" % (here, want))


def modules():
    ensure_path()
    return {name: importlib.import_module(name) for name in GBASIS_MODULES}


def _scipy_shim():
    import scipy
    import scipy.special

    sp = types.ModuleType("scipy.special(exact-shim)")
    sp.__dict__.update({k: getattr(scipy.special, k) for k in ("hyp1f1",)})
    sp.factorial2 = S.exact_factorial2
    sp.factorial = S.exact_factorial
    sp.comb = S.exact_comb
    sp.perm = S.exact_perm
    sp.eval_hermite = S.exact_eval_hermite
    top = types.ModuleType("scipy(exact-shim)")
    top.special = sp
    return top


PROXY = None


def install_symbolic():
    """rebind np / scipy names in all gbasis modules (idempotent)"""
    global PROXY
    mods = modules()
    if _state["mode"] == "sym":
        return mods
    PROXY = S.SymNumpy()
    shim = _scipy_shim()
    saved = _state["saved"]
    for name, mod in mods.items():
        for attr, new in (
            ("np", PROXY),
            ("scipy", shim),
            ("comb", S.exact_comb),
            ("perm", S.exact_perm),
            ("factorial", S.exact_factorial),
            ("eval_hermite", S.exact_eval_hermite),
        ):
            if attr in mod.__dict__:
                saved.setdefault((name, attr), mod.__dict__[attr])
                mod.__dict__[attr] = new
    # divisions inside assign_norm_cont are covered by the trusted precondition (non-zero contraction)
    cls = mods["gbasis.contractions"].GeneralizedContractionShell
    if not getattr(cls.assign_norm_cont, "_verif_wrapped", False):
        real = cls.assign_norm_cont
        saved.setdefault(("gbasis.contractions", "@assign_norm_cont"), real)

        def assign_norm_cont(self):
            S.DIV_EXEMPT[0] += 1
            try:
                return type(self)._verif_real_assign(self) if hasattr(type(self), "_verif_real_assign") and False else real(self)
            finally:
                S.DIV_EXEMPT[0] -= 1

        assign_norm_cont._verif_wrapped = True
        assign_norm_cont.__wrapped__ = real
        cls.assign_norm_cont = assign_norm_cont
    _state["mode"] = "sym"
    return mods


def fresh_proxy():
    """new pi symbol etc. after alg.reset()"""
    global PROXY
    if _state["mode"] == "sym":
        PROXY.pi = S.Sym.symbol("pi", "pos")
    return PROXY


def uninstall():
    mods = modules()
    for (name, attr), old in _state["saved"].items():
        if attr == "@assign_norm_cont":
            mods[name].GeneralizedContractionShell.assign_norm_cont = old
            continue
        mods[name].__dict__[attr] = old
    _state["saved"].clear()
    _state["mode"] = None


class patched:
    """context manager: temporarily rebind attributes (stubs for callees)"""

    def __init__(self, *triples):
        self.triples = triples
        self.old = []

    def __enter__(self):
        for obj, attr, new in self.triples:
            d = obj.__dict__ if not isinstance(obj, type) else None
            if d is not None:
                self.old.append((obj, attr, d.get(attr, _MISSING)))
                d[attr] = new
            else:
                self.old.append((obj, attr, obj.__dict__.get(attr, _MISSING)))
                setattr(obj, attr, new)
        return self

    def __exit__(self, *exc):
        for obj, attr, old in reversed(self.old):
            if old is _MISSING:
                try:
                    delattr(obj, attr)
                except AttributeError:
                    pass
            else:
                if isinstance(obj, type):
                    setattr(obj, attr, old)
                else:
                    obj.__dict__[attr] = old
        return False


_MISSING = object()
