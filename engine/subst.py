"""Use of the equalities of a path condition.

A path of the real code that was entered through `x == y` (taken) or `x != y` (not taken) carries the equation
x - y = 0.  Polynomial identity alone cannot discharge `lhs == rhs` on such a path, so the equation is solved
for one plain symbol that occurs linearly with a cofactor that cannot vanish (a non-zero constant or a
syntactically positive/negative polynomial), and that symbol is replaced everywhere - by re-evaluating the
canonical value in the field of symbolic values, which also rewrites the arguments of exp / log / sqrt / Boys atoms.
Replacing a quantity by something equal to it is sound; it is merely incomplete when no symbol can be isolated."""
from . import alg, sym as S
from .alg import Value, QU


def _plain(C, s):
    return C.kinds[s] in ("real", "pos", "opq") and s not in C.boysinfo and not any(t == s for t, _ in C.logs) and C.names[s] != "pi"


def solve_for(d):
    """(symbol index, replacement Value) from the assumption d == 0, or None"""
    C = alg.ctx()
    d = alg.collapse(d) if type(d) is not Value else d
    n = d.n
    if not n:
        return None
    occ = {}
    for m in n:
        for s, e in C.items(m):
            occ.setdefault(s, set()).add(e)
    for s in sorted(occ):
        if not _plain(C, s) or occ[s] != {QU}:
            continue
        q, r = {}, {}
        for m, c in n.items():
            its = C.items(m)
            if any(t == s for t, _ in its):
                q[C.mono([(t, e) for t, e in its if t != s])] = c
            else:
                r[m] = c
        qv = Value(q)
        if not (qv.is_const() or S.syntactic_sign(qv) is not None):
            continue
        return s, alg.v_neg(alg.v_div(Value(r), qv))
    return None


def substitute(v, s, repl):
    from . import fields

    C = alg.ctx()
    env = {}
    for t in range(len(C.names)):
        if t == s:
            env[t] = S.Sym.of_value(repl)
        elif _plain(C, t) or C.names[t] == "pi":
            env[t] = S.Sym.of_value(Value({C.mono([(t, QU)]): 1}))
    return S.expand(S.lift(alg.evalv(v, env, fields.SymField())))


def equations_of(formulas):
    """the values asserted to vanish by a list of path formulas"""
    out = []
    for f in formulas:
        if f[0] == "atom" and f[2] == "==":
            out.append(f[1])
        elif f[0] == "not" and f[1][0] == "atom" and f[1][2] == "!=":
            out.append(f[1][1])
        elif f[0] == "and":
            out += equations_of(f[1])
    return out


def reduce_under(v, formulas, limit=8):
    """v rewritten with the equations of the path; returns (value, number of substitutions made)"""
    eqs = equations_of(formulas)
    done = 0
    while eqs and done < limit:
        d = eqs.pop(0)
        sol = solve_for(d)
        if sol is None:
            continue
        s, repl = sol
        v = substitute(v, s, repl)
        eqs = [substitute(e, s, repl) for e in eqs]
        done += 1
    return v, done
