"""Use of the equalities of a path condition.

A path of the real code that was entered through `x == y` (taken) or `x != y` (not taken) carries the equation
x - y = 0.  Polynomial identity alone cannot discharge `lhs == rhs` on such a path, so the equation is solved
for one plain symbol that occurs linearly with a cofactor that cannot vanish (a non-zero constant or a
syntactically positive/negative polynomial), and that symbol is replaced everywhere - by re-evaluating the
canonical value in the field of symbolic values, which also rewrites the arguments of exp / log / sqrt / Boys atoms.
Replacing a quantity by something equal to it is sound; it is merely incomplete when no symbol can be isolated."""
from . import alg, sym as S
from .alg import Value, QU


def _plain(C, s):
    return C.kinds[s] in ("real", "pos", "opq") and s not in C.boysinfo and not any(t == s for t, _ in C.logs) and C.names[s] != "pi"


def solve_for(d):
    """(symbol index, replacement Value) from the assumption d == 0, or None"""
    C = alg.ctx()
    d = alg.collapse(d) if type(d) is not Value else d
    n = d.n
    if not n:
        return None
    occ = {}
    for m in n:
        for s, e in C.items(m):
            occ.setdefault(s, set()).add(e)
    for s in sorted(occ):
        if not _plain(C, s) or occ[s] != {QU}:
            continue
        q, r = {}, {}
        for m, c in n.items():
            its = C.items(m)
            if any(t == s for t, _ in its):
                q[C.mono([(t, e) for t, e in its if t != s])] = c
            else:
                r[m] = c
        qv = Value(q)
        if not (qv.is_const() or S.syntactic_sign(qv) is not None):
            continue
        return s, alg.v_neg(alg.v_div(Value(r), qv))
    return None


def substitute_all(v, env):
    """v with every symbol of env {symbol index: Value} replaced (one re-evaluation pass)"""
    from . import fields

    if not env:
        return v
    C = alg.ctx()
    full = {}
    for t in range(len(C.names)):
        if t in env:
            full[t] = S.Sym.of_value(env[t])
        elif _plain(C, t) or C.names[t] == "pi":
            full[t] = S.Sym.of_value(Value({C.mono([(t, QU)]): 1}))
    return S.expand(S.lift(alg.evalv(v, full, fields.SymField())))


def substitute(v, s, repl):
    return substitute_all(v, {s: repl})


def _mentions(v, s):
    C = alg.ctx()
    for part in alg.simple_parts(v):
        monos = list(part.n) + [part.dm]
        for f in part.df:
            monos += list(C.factors[f])
        for mo in monos:
            if any(t == s for t, _ in C.items(mo)):
                return True
    return False


def equations_of(formulas):
    """the values asserted to vanish by a list of path formulas"""
    out = []
    for f in formulas:
        if f[0] == "atom" and f[2] == "==":
            out.append(f[1])
        elif f[0] == "not" and f[1][0] == "atom" and f[1][2] == "!=":
            out.append(f[1][1])
        elif f[0] == "and":
            out += equations_of(f[1])
    return out


def solve_path(formulas, limit=400):
    """triangular solution {symbol: Value over the unsolved symbols} of the equations of a path (computed once per path)"""
    env = {}
    for d in equations_of(formulas)[:limit]:
        d = substitute_all(d, env)
        sol = solve_for(d)
        if sol is None:
            continue
        s, repl = sol
        for t in list(env):
            if _mentions(env[t], s):
                env[t] = substitute_all(env[t], {s: repl})
        env[s] = repl
    return env


def reduce_under(v, formulas, env=None):
    """v rewritten with the equations of the path; returns (value, number of solved symbols)"""
    if env is None:
        env = solve_path(formulas)
    return substitute_all(v, env), len(env)
