"""Number fields over which the specification library and the contract harnesses are generic.

SymField   : symbolic reals (engine.sym)            -- the deductive runs
MpField    : mpmath at a chosen precision            -- oracles for replay / rounding stand-in
FloatField : IEEE doubles                            -- native replays
FracField  : exact rationals (no radicals)           -- randomised identity tests
"""
import math
from fractions import Fraction

from . import sym as S


class SymField:
    name = "sym"

    def __init__(self):
        self.pi = S.Sym.symbol("pi", "pos")

    def num(self, q):
        return S.lift(q if not isinstance(q, Fraction) or q.denominator != 1 else q.numerator)

    def sqrt(self, x):
        return S.lift(x).sqrt()

    def exp(self, x):
        return S.lift(x).exp()

    def log(self, x):
        return S.lift(x).log()

    def pow(self, x, e):
        return S.lift(x) ** Fraction(e)

    def boys(self, m, T):
        return S.boys_atom(m, T)

    def imag(self):
        return S.I()

    def conj(self, x):
        return S.lift(x).conjugate()

    def real(self, name):
        return S.Sym.symbol(name, "real")

    def posv(self, name):
        return S.Sym.symbol(name, "pos")

    def opq(self, name):
        return S.Sym.symbol(name, "opq")

    def array(self, data):
        return S.SymArray(data)


class FloatField:
    name = "float"
    pi = math.pi

    def __init__(self, env=None):
        self.env = env or {}

    def num(self, q):
        return float(q)

    def sqrt(self, x):
        return x**0.5 if not isinstance(x, complex) else x**0.5

    def exp(self, x):
        return math.exp(x)

    def log(self, x):
        return math.log(x)

    def pow(self, x, e):
        return x ** float(e)

    def boys(self, m, T):
        from scipy.special import hyp1f1

        return float(hyp1f1(m + 0.5, m + 1.5, -T)) / (2 * m + 1)

    def imag(self):
        return 1j

    def conj(self, x):
        return x.conjugate() if isinstance(x, complex) else x

    def re(self, x):
        return x.real if isinstance(x, complex) else x

    def im(self, x):
        return x.imag if isinstance(x, complex) else 0.0

    def real(self, name):
        return float(self.env[name])

    posv = real
    opq = real

    def array(self, data):
        import numpy as np

        return np.array(data, dtype=float)


class MpField:
    name = "mp"

    def __init__(self, env=None, dps=60):
        import mpmath

        self.mp = mpmath.mp.clone() if hasattr(mpmath.mp, "clone") else mpmath.mp
        self.mp.dps = dps
        self.pi = self.mp.pi
        self.env = env or {}

    def num(self, q):
        if isinstance(q, Fraction):
            return self.mp.mpf(q.numerator) / q.denominator
        return self.mp.mpf(q)

    def sqrt(self, x):
        return self.mp.sqrt(x)

    def exp(self, x):
        return self.mp.exp(x)

    def log(self, x):
        return self.mp.log(x)

    def pow(self, x, e):
        e = Fraction(e)
        return self.mp.power(x, self.mp.mpf(e.numerator) / e.denominator)

    def boys(self, m, T):
        mp = self.mp
        return mp.hyp1f1(m + mp.mpf(1) / 2, m + mp.mpf(3) / 2, -T) / (2 * m + 1)

    def imag(self):
        return self.mp.mpc(0, 1)

    def conj(self, x):
        return self.mp.conj(x)

    def re(self, x):
        return self.mp.re(x)

    def im(self, x):
        return self.mp.im(x)

    def real(self, name):
        v = self.env[name]
        if isinstance(v, Fraction):
            return self.num(v)
        if isinstance(v, str):
            return self.mp.mpf(v)
        return self.mp.mpf(v)

    posv = real
    opq = real

    def array(self, data):
        import numpy as np

        return np.array(data, dtype=object)


class FracField:
    """exact rationals: for randomised polynomial identity tests of DAGs without radicals.
    sqrt/exp/pow of non-trivial arguments are mapped to *formal* independent values supplied by
    the caller through ``atoms`` (keyed by a canonical description), never approximated."""

    name = "frac"

    def __init__(self, env=None):
        self.env = env or {}

    def num(self, q):
        return Fraction(q)

    def real(self, name):
        return Fraction(self.env[name])

    posv = real
    opq = real


class FracOnly:
    """exact rationals, polynomial evaluation only"""

    def num(self, q):
        return Fraction(q)

    def pow(self, x, e):
        if Fraction(e).denominator != 1:
            raise ValueError("fractional power")
        return x ** int(e)
