"""Symbolic reals as lazily expanded DAG nodes, the ndarray subclass that carries them, and the
numpy proxy that is bound to the name ``np`` inside the gbasis modules under verification.

Nothing here re-implements numpy: indexing, broadcasting, tensordot, einsum, concatenate, ... are
executed by the real numpy on object arrays; the elements record the arithmetic.
"""
import math
import types
from fractions import Fraction

import numpy as _np

from . import alg
from .alg import Undecided, Value

MAXDEN = 1 << 40


def _frac_of_float(x):
    if x != x or x in (float("inf"), float("-inf")):
        raise Undecided("non-finite float %r entered the symbolic domain" % x)
    f = Fraction(x)
    if abs(f.numerator) <= (1 << 20):
        return f  # an exact small dyadic such as 2**-52 (machine epsilon), however small
    if f.denominator > MAXDEN or abs(f.numerator) > (1 << 62):
        # a short decimal literal of the source text (1e-12, 0.1, 1.5e-8): read as the decimal the programmer
        # wrote; anything with more than 6 significant digits (a rounded irrational, a computed value) is refused
        from decimal import Decimal

        d = Decimal(repr(x))
        if len(d.as_tuple().digits) <= 6:
            return Fraction(d)
        raise Undecided("inexact float %r entered the symbolic domain" % x)
    return f


class Sym:
    """node of the expression DAG; ``val`` caches the canonical Value once expanded"""

    __slots__ = ("op", "a", "b", "val", "__weakref__")
    __array_priority__ = 0.0

    def __init__(self, op, a=None, b=None, val=None):
        self.op = op
        self.a = a
        self.b = b
        self.val = val

    # ---- construction helpers
    @staticmethod
    def const(q):
        return Sym("k", q)

    @staticmethod
    def symbol(name, kind="real"):
        return Sym("v", None, None, Value.symbol(name, kind))

    @staticmethod
    def of_value(v):
        return Sym("v", None, None, v)

    def _isk(self):
        return self.op == "k"

    # ---- arithmetic
    def __add__(self, o):
        o = lift(o)
        if o is NotImplemented:
            return o
        if self.op == "k":
            if o.op == "k":
                return Sym("k", self.a + o.a)
            if self.a == 0:
                return o
        elif o.op == "k" and o.a == 0:
            return self
        return Sym("+", self, o)

    __radd__ = __add__

    def __sub__(self, o):
        o = lift(o)
        if o is NotImplemented:
            return o
        if o is self:
            return ZERO
        if o.op == "k":
            if self.op == "k":
                return Sym("k", self.a - o.a)
            if o.a == 0:
                return self
        return Sym("-", self, o)

    def __rsub__(self, o):
        o = lift(o)
        if o is NotImplemented:
            return o
        return o.__sub__(self)

    def __mul__(self, o):
        o = lift(o)
        if o is NotImplemented:
            return o
        if self.op == "k":
            if o.op == "k":
                return Sym("k", self.a * o.a)
            if self.a == 0:
                return ZERO
            if self.a == 1:
                return o
        elif o.op == "k":
            if o.a == 0:
                return ZERO
            if o.a == 1:
                return self
        return Sym("*", self, o)

    __rmul__ = __mul__

    def __truediv__(self, o):
        o = lift(o)
        if o is NotImplemented:
            return o
        if o.op == "k":
            if o.a == 0:
                if self.op == "k" and self.a == 0:
                    return NAN
                return SymInf(self)
            if self.op == "k":
                return Sym("k", Fraction(self.a) / o.a)
            if o.a == 1:
                return self
        elif self.op == "k" and self.a == 0:
            DIVLOG.append(o)
            return ZERO
        DIVLOG.append(o)
        return Sym("/", self, o)

    def __rtruediv__(self, o):
        o = lift(o)
        if o is NotImplemented:
            return o
        return o.__truediv__(self)

    def __neg__(self):
        if self.op == "k":
            return Sym("k", -self.a)
        return Sym("neg", self)

    def __pos__(self):
        return self

    def __pow__(self, e):
        if isinstance(e, Sym):
            if e.op != "k":
                raise Undecided("symbolic exponent")
            e = e.a
        if isinstance(e, (_np.ndarray,)):
            return NotImplemented
        if hasattr(e, "generic_power_of"):
            return e.generic_power_of(self)  # exponent that contains a symbolic extent (engine/generic.py): an opaque positive atom
        if isinstance(e, (float, _np.floating)):
            e = _frac_of_float(float(e))
        elif isinstance(e, (int, _np.integer)):
            e = int(e)
        elif not isinstance(e, Fraction):
            raise Undecided("unsupported exponent %r" % (e,))
        e = Fraction(e)
        if self.op == "k" and e.denominator == 1 and (e >= 0 or self.a != 0):
            return Sym("k", Fraction(self.a) ** int(e))
        if self.op == "k" and self.a == 0 and e > 0:
            return ZERO
        if e == 1:
            return self
        if e == 0:
            return ONE
        if e < 0 and self.op != "k":
            DIVLOG.append(self)
        return Sym("pow", self, e)

    def __rpow__(self, base):
        raise Undecided("constant ** symbolic")

    def sqrt(self):
        return self.__pow__(Fraction(1, 2))

    def exp(self):
        if self.op == "k" and self.a == 0:
            return ONE
        return Sym("exp", self)

    def log(self):
        if self.op == "k" and self.a == 1:
            return ZERO
        return Sym("log", self)

    def conjugate(self):
        if self.op == "k":
            return self
        return Sym("conj", self)

    conj = conjugate

    @property
    def real(self):
        return Sym("re", self)

    @property
    def imag(self):
        return Sym("im", self)

    def __abs__(self):
        return _decide_abs(self)

    # ---- things that would silently leave the symbolic domain
    def __float__(self):
        v = expand(self)
        if v.is_const():
            return float(v.as_fraction())
        raise Undecided("float() of a symbolic real (a symbolic value was stored into a float buffer)")

    __int__ = __float__
    __index__ = None

    def __complex__(self):
        raise Undecided("complex() of a symbolic value")

    # ---- comparisons go to the decision oracle (paths.py installs it)
    def _cmp(self, o, rel):
        if isinstance(o, SymNaN):
            return rel == "!="
        if _is_inf(o):
            pos = o > 0
            return {"<": pos, "<=": pos, ">": not pos, ">=": not pos, "==": False, "!=": True}[rel]
        if isinstance(o, SymInf):
            return {"<": o.__gt__(self), "<=": o.__gt__(self), ">": o.__lt__(self), ">=": o.__lt__(self), "==": False, "!=": True}[rel]
        o = lift(o)
        if o is NotImplemented:
            return o
        return DECIDE(self, o, rel)

    def __lt__(self, o):
        return self._cmp(o, "<")

    def __le__(self, o):
        return self._cmp(o, "<=")

    def __gt__(self, o):
        return self._cmp(o, ">")

    def __ge__(self, o):
        return self._cmp(o, ">=")

    def __eq__(self, o):
        return self._cmp(o, "==")

    def __ne__(self, o):
        return self._cmp(o, "!=")

    __hash__ = object.__hash__

    def __bool__(self):
        r = DECIDE(self, ZERO, "!=")
        return bool(r)

    def __repr__(self):
        try:
            return "Sym<%s>" % alg.fmt(expand(self), 6)
        except Exception as e:  # diagnostics only
            return "Sym<unexpanded %s>" % self.op


ZERO = Sym("k", 0)
ONE = Sym("k", 1)


def _clear_shared_constants():
    # module-level constants are shared between runs with different contexts: drop their cached values
    ZERO.val = None
    ONE.val = None


alg.RESET_HOOKS.append(_clear_shared_constants)
DIVLOG = []  # every non-constant divisor met during a symbolic run (well-definedness obligations)
DIV_EXEMPT = [0]  # > 0 while the real assign_norm_cont runs: its radicand is positive by the trusted
#                   precondition "a contraction is not the zero function"


class _DivLog(list):
    def append(self, x):
        if not DIV_EXEMPT[0]:
            list.append(self, x)


DIVLOG = _DivLog()


class SymInf:
    """Z/0 with a divisor that is canonically zero: a signed infinity (sign of the numerator).  It
    supports comparison with finite values and being overwritten, nothing else."""

    def __init__(self, num):
        self.num = num

    def _sign_pos(self):
        if bool(DECIDE(self.num, ZERO, ">")):
            return True
        if bool(DECIDE(self.num, ZERO, "<")):
            return False
        raise Undecided("0/0 in the symbolic domain")

    def __gt__(self, o):
        return self._sign_pos()

    __ge__ = __gt__

    def __lt__(self, o):
        return not self._sign_pos()

    __le__ = __lt__

    def __eq__(self, o):
        return False

    def __ne__(self, o):
        return True

    __hash__ = object.__hash__

    def _no(self, *a):
        raise Undecided("arithmetic on an infinite value (division by an exact zero survived)")

    __add__ = __radd__ = __sub__ = __rsub__ = __mul__ = __rmul__ = __truediv__ = __rtruediv__ = __neg__ = __pow__ = __abs__ = _no
    __float__ = _no


class SymNaN:
    """0/0 with both operands canonically zero: not-a-number; propagates through arithmetic, every
    comparison is False.  An obligation that meets it fails (the real code returns nan there)."""

    def _same(self, *a):
        return self

    __add__ = __radd__ = __sub__ = __rsub__ = __mul__ = __rmul__ = __truediv__ = __rtruediv__ = __neg__ = __pow__ = __abs__ = _same
    sqrt = exp = log = conjugate = _same

    def _false(self, o):
        return False

    __lt__ = __le__ = __gt__ = __ge__ = __eq__ = _false

    def __ne__(self, o):
        return True

    __hash__ = object.__hash__

    def __repr__(self):
        return "SymNaN"


NAN = SymNaN()


def _is_inf(o):
    return isinstance(o, (float, _np.floating)) and o in (float("inf"), float("-inf"))


class SymFloat(float):
    """a Python float subclass carrying a symbolic node, for scalar parameters that gbasis
    type-checks with isinstance(x, (int, float)) (alpha, beta, thresholds, tolerances)"""

    def __new__(cls, node, approx=0.5):
        obj = float.__new__(cls, approx)
        obj.node = node
        return obj


def _mk_symfloat_ops():
    import operator as _op

    refl = {"__add__": _op.add, "__radd__": lambda a, b: b + a, "__sub__": _op.sub, "__rsub__": lambda a, b: b - a,
            "__mul__": _op.mul, "__rmul__": lambda a, b: b * a, "__truediv__": _op.truediv, "__rtruediv__": lambda a, b: b / a,
            "__lt__": _op.lt, "__le__": _op.le, "__gt__": _op.gt, "__ge__": _op.ge, "__eq__": _op.eq, "__ne__": _op.ne,
            "__pow__": _op.pow}

    def fwd(name):
        def op(self, *args):
            if args and isinstance(args[0], _np.ndarray) and args[0].ndim and name in refl:
                # never let numpy coerce the carrier float: operate as a 0-d object array
                me = _np.empty((), dtype=object)
                me[()] = self.node
                return refl[name](me, args[0])
            return getattr(self.node, name)(*args)

        return op

    for name in (
        "__add__ __radd__ __sub__ __rsub__ __mul__ __rmul__ __truediv__ __rtruediv__ __neg__ "
        "__pos__ __pow__ __abs__ __lt__ __le__ __gt__ __ge__ __eq__ __ne__ __bool__"
    ).split():
        setattr(SymFloat, name, fwd(name))
    SymFloat.__hash__ = object.__hash__
    SymFloat.__array_ufunc__ = None  # ndarray binary operators defer to the reflected methods above


_mk_symfloat_ops()


def lift(o):
    """coerce an operand to a Sym node; ndarrays are declined so that numpy broadcasts"""
    if isinstance(o, Sym):
        return o
    if isinstance(o, (SymNaN, SymInf)):
        return NotImplemented
    if isinstance(o, SymFloat):
        return o.node
    if isinstance(o, bool):
        return Sym("k", int(o))
    if isinstance(o, int):
        return Sym("k", o)
    if isinstance(o, Fraction):
        return Sym("k", o)
    if isinstance(o, float):
        f = _frac_of_float(o)
        return Sym("k", f.numerator if f.denominator == 1 else f)
    if isinstance(o, _np.ndarray):
        if o.ndim == 0:
            return lift(o.item())
        return NotImplemented
    if isinstance(o, _np.bool_):
        return Sym("k", int(o))
    if isinstance(o, _np.integer):
        return Sym("k", int(o))
    if isinstance(o, _np.floating):
        return lift(float(o))
    if isinstance(o, (complex, _np.complexfloating)):
        o = complex(o)
        re = lift(o.real)
        im = lift(o.imag)
        return re + im * Sym.of_value(_imag_value())
    if isinstance(o, Value):
        return Sym.of_value(o)
    return NotImplemented


def _imag_value():
    C = alg.ctx()
    s = C.imag_sym()
    return Value({C.mono([(s, alg.QU)]): 1})


def I():
    return Sym.of_value(_imag_value())


# --------------------------------------------------------------------------------------------
# expansion


def _conj_value(v):
    C = alg.ctx()
    if C.imag is None:
        return v
    if type(v) is not Value:
        return alg.map_terms(v, _conj_value)
    s = C.imag
    n = {}
    for m, c in v.n.items():
        e = dict(C.items(m)).get(s, 0)
        n[m] = -c if e else c
    return Value(n, v.di, v.dm, v.df)


def _re_im(v, want_im):
    C = alg.ctx()
    if C.imag is None:
        return Value({}) if want_im else v
    if type(v) is not Value:
        return alg.map_terms(v, lambda t: _re_im(t, want_im))
    s = C.imag
    n = {}
    for m, c in v.n.items():
        its = C.items(m)
        has = any(t == s for t, _ in its)
        if has == want_im:
            k = C.mono([(t, e) for t, e in its if t != s])
            n[k] = n.get(k, 0) + c
    return Value(n, v.di, v.dm, v.df)


def _compute(n):
    op = n.op
    if op == "k":
        return Value.const(n.a)
    a = n.a.val
    if op == "+":
        return alg.v_add(a, n.b.val)
    if op == "-":
        return alg.v_sub(a, n.b.val)
    if op == "*":
        return alg.v_mul(a, n.b.val)
    if op == "/":
        if n.b.val.is_zero():
            raise Undecided("division by an expression that is identically zero inside a larger expression")
        return alg.v_div(a, n.b.val)
    if op == "neg":
        return alg.v_neg(a)
    if op == "pow":
        return alg.v_pow(a, n.b)
    if op == "exp":
        return alg.v_exp(a)
    if op == "log":
        return alg.v_log(a)
    if op == "conj":
        return _conj_value(a)
    if op == "re":
        return _re_im(a, False)
    if op == "im":
        return _re_im(a, True)
    if op == "boys":
        return _boys_value(n.b, a)
    raise Undecided("unknown node %s" % op)


def expand(node):
    """canonical Value of a node (memoised, explicit stack)"""
    if node.val is not None:
        return node.val
    stack = [node]
    while stack:
        n = stack[-1]
        if n.val is not None:
            stack.pop()
            continue
        a, b = n.a, n.b
        wait = False
        if isinstance(a, Sym) and a.val is None:
            stack.append(a)
            wait = True
        if isinstance(b, Sym) and b.val is None:
            stack.append(b)
            wait = True
        if wait:
            continue
        n.val = _compute(n)
        stack.pop()
    return node.val


def release(node):
    """drop the children of an expanded node (keeps memory bounded)"""
    if node.val is not None and node.op not in ("k", "v"):
        node.op, node.a, node.b = "v", None, None


def _boys_value(m, argv):
    """opaque atom F_m(T), keyed by (m, canonical argument found by decided equality)"""
    C = alg.ctx()
    for (mm, idx), s in C.boys.items():
        if mm == m and alg.v_equal(C.boysinfo[s][1], argv):
            return Value({C.mono([(s, alg.QU)]): 1})
    idx = len(C.boys)
    s = C.sym("F%d_%d" % (m, idx), "opq")
    C.boys[(m, idx)] = s
    C.boysinfo[s] = (m, argv)
    return Value({C.mono([(s, alg.QU)]): 1})


def boys_atom(m, T):
    return Sym("boys", lift(T), int(m))


# --------------------------------------------------------------------------------------------
# numeric evaluation of the DAG (replay, cross-check, randomised identity test)


def evalnode(node, env, F, memo=None):
    """evaluate a node numerically.  env: {symbol name -> number in field F}"""
    C = alg.ctx()
    if memo is None:
        memo = {}
    keep = memo.setdefault("_keep", [])  # keeps evaluated nodes alive: ids must not be recycled under a shared memo
    symenv = {C.byname[k]: v for k, v in env.items() if k in C.byname}

    def leaf(n):
        if n.op == "k":
            return F.num(n.a)
        return alg.evalv(n.val, symenv, F)

    stack = [node]
    while stack:
        n = stack[-1]
        key = id(n)
        if key in memo:
            stack.pop()
            continue
        if n.op in ("k", "v"):
            memo[key] = leaf(n)
            keep.append(n)
            stack.pop()
            continue
        a, b = n.a, n.b
        wait = False
        if isinstance(a, Sym) and id(a) not in memo:
            stack.append(a)
            wait = True
        if isinstance(b, Sym) and id(b) not in memo:
            stack.append(b)
            wait = True
        if wait:
            continue
        op = n.op
        x = memo[id(a)]
        if op == "+":
            r = x + memo[id(b)]
        elif op == "-":
            r = x - memo[id(b)]
        elif op == "*":
            r = x * memo[id(b)]
        elif op == "/":
            r = x / memo[id(b)]
        elif op == "neg":
            r = -x
        elif op == "pow":
            r = F.pow(x, n.b)
        elif op == "exp":
            r = F.exp(x)
        elif op == "log":
            r = F.log(x)
        elif op == "conj":
            r = F.conj(x)
        elif op == "re":
            r = F.re(x)
        elif op == "im":
            r = F.im(x)
        elif op == "boys":
            r = F.boys(n.b, x)
        else:
            raise Undecided("evalnode: %s" % op)
        memo[key] = r
        keep.append(n)
        stack.pop()
    return memo[id(node)]


# --------------------------------------------------------------------------------------------
# decisions (default: only constants decide; paths.py replaces DECIDE)


def _default_decide(a, b, rel):
    d = expand(a - b)
    if d.is_const():
        q = d.as_fraction()
        return {"<": q < 0, "<=": q <= 0, ">": q > 0, ">=": q >= 0, "==": q == 0, "!=": q != 0}[rel]
    if rel in ("==", "!=") and d.is_zero():
        return rel == "=="
    sg = syntactic_sign(d)
    if sg is not None:
        return {"<": sg < 0, "<=": sg < 0, ">": sg > 0, ">=": sg > 0, "==": False, "!=": True}[rel]
    if rel in ("==", "!=") and alg.ctx().meta.get("eq_is_identity", False):
        # opt-in only (a harness that states "generic position" as an explicit, reported assumption)
        return rel == "!="
    raise Undecided("comparison %s on symbolic reals outside a path exploration" % rel)


def syntactic_sign(v):
    """+1 / -1 when every term of the value is a product of positive atoms with coefficients of one sign
    (positive symbols, radicals, exponentials, primes, defined atoms) and the denominator likewise"""
    C = alg.ctx()
    posk = ("pos", "rad", "exp", "prime", "def", "gsq")
    sign = None
    for part in alg.simple_parts(v):
        for f in part.df:
            if any(c < 0 for c in C.factors[f].values()) or any(C.kinds[t] not in posk for m in C.factors[f] for t, _ in C.items(m)):
                return None
        if any(C.kinds[t] not in posk for t, _ in C.items(part.dm)):
            return None
        for m, c in part.n.items():
            if any(C.kinds[t] not in posk for t, _ in C.items(m)):
                return None
            sg = 1 if c > 0 else -1
            if sign is None:
                sign = sg
            elif sign != sg:
                return None
    return sign


DECIDE = _default_decide


def set_decider(fn):
    global DECIDE
    DECIDE = fn or _default_decide


def _decide_abs(x):
    if x.op == "k":
        return Sym("k", abs(x.a))
    if DECIDE(x, ZERO, ">="):
        return x
    return -x


# --------------------------------------------------------------------------------------------
# arrays


class SymArray(_np.ndarray):
    """object ndarray whose Python-level dtype reports float64, so that gbasis' own argument
    validation runs unchanged (``x.dtype == float``)."""

    def __new__(cls, data, cplx=False):
        arr = _np.empty(_np.shape(data), dtype=object)
        if arr.ndim == 0:
            arr[()] = data
        else:
            arr[...] = _np.asarray(data, dtype=object)
        obj = arr.view(cls)
        return obj

    @property
    def dtype(self):
        return _np.dtype(float)

    def __array_wrap__(self, arr, context=None, return_scalar=False):
        # reductions to 0-d give the element itself, as for a plain object array
        if arr.ndim == 0:
            return arr[()]
        return arr.view(SymArray) if _DT.__get__(arr) == object else arr

    def astype(self, dtype, *a, **k):
        if dtype in (float, _np.float64, "float", "float64") or _np.dtype(dtype) == _np.dtype(float):
            return self.copy()
        if _np.dtype(dtype) == _np.dtype(object):
            return _np.ndarray.astype(self, object)
        raise Undecided("astype(%r) on a symbolic array" % (dtype,))


def symarray(data):
    return SymArray(data)


def symbols(prefix, shape, kind="real"):
    """array of fresh symbols prefix[i,j,...]"""
    arr = _np.empty(shape, dtype=object)
    for idx in _np.ndindex(*shape) if shape else [()]:
        name = prefix + "".join("_%d" % i for i in idx)
        arr[idx] = Sym.symbol(name, kind)
    return arr.view(SymArray)


def is_symbolic(x):
    return isinstance(x, (Sym, SymFloat)) or (isinstance(x, _np.ndarray) and _np.ndarray.dtype.__get__(x) == object)


_DT = _np.ndarray.dtype


def _raw_dtype(x):
    return _DT.__get__(x)


def to_sym_array(x):
    """numeric array/scalar -> object array of exact constants"""
    x = _np.asarray(x)
    if x.dtype == object:
        return x
    out = _np.empty(x.shape, dtype=object)
    flat = out.reshape(-1)
    for i, v in enumerate(x.reshape(-1)):
        flat[i] = lift(v.item())
    return out.view(SymArray)


# --------------------------------------------------------------------------------------------
# the numpy proxy


def _is_float_dtype(dtype):
    if dtype is None:
        return True
    try:
        return _np.issubdtype(_np.dtype(dtype), _np.floating)
    except TypeError:
        return False


def _is_complex_dtype(dtype):
    try:
        return dtype is not None and _np.issubdtype(_np.dtype(dtype), _np.complexfloating)
    except TypeError:
        return False


class _Linalg:
    def __getattr__(self, name):
        return getattr(_np.linalg, name)

    @staticmethod
    def norm(x, ord=None, axis=None, keepdims=False):
        xa = _np.asarray(x)
        if xa.dtype != object:
            return _np.linalg.norm(x, ord=ord, axis=axis, keepdims=keepdims)
        if ord not in (None, 2):
            raise Undecided("linalg.norm ord=%r" % (ord,))
        s = _np.sum(xa * xa, axis=axis, keepdims=keepdims)
        return _np.sqrt(s) if isinstance(s, _np.ndarray) else s.sqrt()


class SymNumpy(types.ModuleType):
    """stands in for the module ``numpy`` inside a gbasis module under verification"""

    def __init__(self):
        super().__init__("numpy(sym-proxy)")
        self.linalg = _Linalg()
        self.pi = Sym.symbol("pi", "pos")
        self.newaxis = None

    def __getattr__(self, name):
        attr = getattr(_np, name)
        if callable(attr) and not isinstance(attr, type) and name not in ("errstate", "seterr", "geterr"):
            return _retagging(attr)
        return attr

    # ---- creation: float buffers become object buffers of exact constants
    def _filled(self, shape, dtype, k):
        if _is_float_dtype(dtype) or _is_complex_dtype(dtype):
            arr = _np.empty(shape, dtype=object)
            arr.fill(k)
            return arr.view(SymArray)
        return None

    def zeros(self, shape, dtype=None, **kw):
        r = self._filled(shape, dtype, ZERO)
        return r if r is not None else _np.zeros(shape, dtype=dtype, **kw)

    def ones(self, shape, dtype=None, **kw):
        r = self._filled(shape, dtype, ONE)
        return r if r is not None else _np.ones(shape, dtype=dtype, **kw)

    def empty(self, shape, dtype=None, **kw):
        r = self._filled(shape, dtype, ZERO)
        return r if r is not None else _np.empty(shape, dtype=dtype, **kw)

    def full(self, shape, fill_value, dtype=None, **kw):
        if isinstance(fill_value, _np.ndarray) and fill_value.ndim and (is_symbolic(fill_value) or _is_float_dtype(dtype)):
            src = fill_value if _raw_dtype(fill_value) == object else to_sym_array(fill_value)
            arr = _np.empty(shape, dtype=object)
            arr[...] = _np.asarray(src, dtype=object)
            return arr.view(SymArray)
        if is_symbolic(fill_value) or (_is_float_dtype(dtype) and not isinstance(fill_value, (int, _np.integer, bool)) ):
            arr = _np.empty(shape, dtype=object)
            arr.fill(lift(fill_value))
            return arr.view(SymArray)
        return _np.full(shape, fill_value, dtype=dtype, **kw)

    def zeros_like(self, a, dtype=None, **kw):
        if is_symbolic(a) and dtype is None:
            return self.zeros(_np.shape(a))
        if dtype is None and not _is_float_dtype(_np.asarray(a).dtype) and not _is_complex_dtype(_np.asarray(a).dtype):
            return _np.zeros_like(a, **kw)
        return self.zeros(_np.shape(a), dtype=dtype if dtype is not None else float)

    def ones_like(self, a, dtype=None, **kw):
        if is_symbolic(a) and dtype is None:
            return self.ones(_np.shape(a))
        if dtype is None and not _is_float_dtype(_np.asarray(a).dtype) and not _is_complex_dtype(_np.asarray(a).dtype):
            return _np.ones_like(a, **kw)
        return self.ones(_np.shape(a), dtype=dtype if dtype is not None else float)

    def empty_like(self, a, dtype=None, **kw):
        return self.zeros_like(a, dtype=dtype)

    def identity(self, n, dtype=None):
        return self.eye(n, dtype=dtype)

    def eye(self, n, m=None, k=0, dtype=None, **kw):
        base = _np.eye(n, m, k, dtype=int)
        if _is_float_dtype(dtype):
            return to_sym_array(base)
        return base.astype(dtype)

    def array(self, obj, dtype=None, **kw):
        if isinstance(obj, SymFloat):
            return SymArray(obj.node)
        if isinstance(obj, Sym):
            return SymArray(obj)
        if dtype is not None and (_is_float_dtype(dtype) or _is_complex_dtype(dtype)) and _contains_sym(obj):
            return SymArray(_np.array(obj, dtype=object, **kw))
        r = _np.array(obj, dtype=dtype, **kw)
        if r.dtype == object and not isinstance(r, SymArray) and _contains_sym(r):
            return r.view(SymArray)
        return r

    def asarray(self, obj, dtype=None, **kw):
        if isinstance(obj, _np.ndarray) and _raw_dtype(obj) == object:
            return obj
        return self.array(obj, dtype=dtype)

    def float64(self, x=0.0):
        if is_symbolic(x):
            return x
        return _np.float64(x)

    # ---- elementwise transcendental functions
    def _elem(self, x, meth, numeric):
        if isinstance(x, SymFloat):
            x = x.node
        if isinstance(x, Sym):
            return getattr(x, meth)()
        xa = x if isinstance(x, _np.ndarray) else _np.asarray(x)
        if _raw_dtype(xa) == object:
            out = _np.empty(xa.shape, dtype=object)
            of = out.reshape(-1)
            for i, v in enumerate(xa.reshape(-1)):
                of[i] = getattr(lift(v), meth)()
            return out.view(SymArray) if xa.ndim else out[()]
        return numeric(xa)

    def sqrt(self, x, *a, **k):
        def numeric(xa):
            # exact radicals of exact rationals; never a rounded double
            out = _np.empty(xa.shape, dtype=object)
            of = out.reshape(-1)
            allsq = True
            for i, v in enumerate(xa.reshape(-1)):
                f = _frac_of_float(float(v)) if not isinstance(v.item(), int) else Fraction(int(v))
                if f < 0:
                    raise Undecided("sqrt of a negative constant")
                rn, rd = math.isqrt(f.numerator), math.isqrt(f.denominator)
                if rn * rn == f.numerator and rd * rd == f.denominator:
                    of[i] = Sym("k", Fraction(rn, rd) if rd != 1 else rn)
                else:
                    allsq = False
                    of[i] = Sym("k", f).sqrt()
            if allsq:
                return _np.sqrt(xa)
            return out.view(SymArray) if xa.ndim else out[()]

        return self._elem(x, "sqrt", numeric)

    def exp(self, x, *a, **k):
        return self._elem(x, "exp", lambda xa: _exact_or_fail(_np.exp, xa, "exp"))

    def log(self, x, *a, **k):
        return self._elem(x, "log", lambda xa: _exact_or_fail(_np.log, xa, "log"))

    def abs(self, x, *a, **k):
        return self._elem(x, "__abs__", _np.abs)

    absolute = abs

    def conj(self, x, *a, **k):
        return self._elem(x, "conjugate", _np.conj)

    conjugate = conj

    def real(self, x):
        xa = _np.asarray(x)
        if _raw_dtype(xa) == object:
            return _map(xa, lambda v: lift(v).real)
        return _np.real(x)

    def imag(self, x):
        xa = _np.asarray(x)
        if _raw_dtype(xa) == object:
            return _map(xa, lambda v: lift(v).imag)
        return _np.imag(x)

    def power(self, x, e, *a, **k):
        if is_symbolic(x):
            return x**e
        return _np.power(x, e, *a, **k)

    def square(self, x, *a, **k):
        return x * x

    # ---- comparisons of arrays in real arithmetic
    def allclose(self, a, b, rtol=1e-05, atol=1e-08, equal_nan=False):
        if is_symbolic(a) or is_symbolic(b):
            aa, bb = _np.broadcast_arrays(_np.asarray(a, dtype=object), _np.asarray(b, dtype=object))
            for x, y in zip(aa.reshape(-1), bb.reshape(-1)):
                if not CLOSE(lift(x), lift(y)):
                    return False
            return True
        return _np.allclose(a, b, rtol=rtol, atol=atol, equal_nan=equal_nan)

    def isclose(self, a, b, rtol=1e-05, atol=1e-08, equal_nan=False):
        if is_symbolic(a) or is_symbolic(b):
            aa, bb = _np.broadcast_arrays(_np.asarray(a, dtype=object), _np.asarray(b, dtype=object))
            out = _np.empty(aa.shape, dtype=bool)
            of = out.reshape(-1)
            for i, (x, y) in enumerate(zip(aa.reshape(-1), bb.reshape(-1))):
                of[i] = CLOSE(lift(x), lift(y))
            return out
        return _np.isclose(a, b, rtol=rtol, atol=atol, equal_nan=equal_nan)

    def array_equal(self, a, b, **k):
        if is_symbolic(a) or is_symbolic(b):
            if _np.shape(a) != _np.shape(b):
                return False
            return self.allclose(a, b)
        return _np.array_equal(a, b, **k)

    def isnan(self, x, *a, **k):
        if is_symbolic(x):
            return _np.zeros(_np.shape(x), dtype=bool)
        return _np.isnan(x, *a, **k)

    def isfinite(self, x, *a, **k):
        if is_symbolic(x):
            return _np.ones(_np.shape(x), dtype=bool)
        return _np.isfinite(x, *a, **k)


def _retag(r):
    """object-dtype results of forwarded numpy functions stay SymArrays (so that `.dtype == float` checks in
    gbasis see what they see in production)"""
    if type(r) is _np.ndarray and _DT.__get__(r) == object:
        return r.view(SymArray)
    if isinstance(r, tuple):
        return tuple(_retag(x) for x in r)
    if isinstance(r, list):
        return [_retag(x) for x in r]
    return r


_RETAG_CACHE = {}


def _retagging(fn):
    w = _RETAG_CACHE.get(fn)
    if w is None:
        def w(*a, **k):
            return _retag(fn(*a, **k))

        w.__name__ = getattr(fn, "__name__", "numpy_function")
        w.__wrapped__ = fn
        try:
            _RETAG_CACHE[fn] = w
        except TypeError:
            pass
    return w


def _close_default(x, y):
    """'close' is read as 'equal' in real arithmetic"""
    return bool(DECIDE(x, y, "=="))


CLOSE = _close_default


def _map(xa, fn):
    out = _np.empty(xa.shape, dtype=object)
    of = out.reshape(-1)
    for i, v in enumerate(xa.reshape(-1)):
        of[i] = fn(v)
    return out.view(SymArray) if xa.ndim else out[()]


def _contains_sym(obj):
    if isinstance(obj, (Sym, SymFloat)):
        return True
    if isinstance(obj, _np.ndarray):
        return _raw_dtype(obj) == object
    if isinstance(obj, (list, tuple)):
        return any(_contains_sym(o) for o in obj)
    return False


def _exact_or_fail(fn, xa, what):
    if getattr(xa, "dtype", None) is not None and _raw_dtype(xa).kind not in "biuf":
        return fn(xa)  # not a number (e.g. a string): numpy itself raises what it raises natively
    if _np.all(xa == 0) and what == "exp":
        return _np.ones(xa.shape)
    if _np.all(xa == 1) and what == "log":
        return _np.zeros(xa.shape)
    raise Undecided("%s of a non-trivial numeric constant would be inexact" % what)


# --------------------------------------------------------------------------------------------
# exact replacements for the scipy.special functions gbasis uses (assumed contracts on scipy)


def exact_factorial2(n, exact=False):
    def f(k):
        k = int(k)
        if k < 0:
            return 0
        r = 1
        while k > 1:
            r *= k
            k -= 2
        return r

    if _np.ndim(n) == 0:
        return _np.array(float(f(n))) if isinstance(n, _np.ndarray) else f(n)
    arr = _np.asarray(n)
    out = _np.empty(arr.shape, dtype=float)
    of = out.reshape(-1)
    for i, v in enumerate(arr.reshape(-1)):
        of[i] = f(v)
    return out


def exact_factorial(n, exact=False):
    def f(k):
        k = int(k)
        return math.factorial(k) if k >= 0 else 0

    if _np.ndim(n) == 0:
        # a symbolic constant, so that quotients such as 1/(2**m * l!) stay exact
        return Sym("k", f(n))
    arr = _np.asarray(n)
    out = _np.empty(arr.shape, dtype=object)
    of = out.reshape(-1)
    for i, v in enumerate(arr.reshape(-1)):
        of[i] = f(v)
    return _as_exact_numeric(out)


def _as_exact_numeric(objarr):
    """object array of python ints -> float64 array if exactly representable else object"""
    try:
        fl = objarr.astype(float)
        if all(int(a) == b for a, b in zip(fl.reshape(-1), objarr.reshape(-1))):
            return fl
    except OverflowError:
        pass
    return objarr


def exact_comb(n, k, exact=False, repetition=False):
    def f(a, b):
        a, b = int(a), int(b)
        if b < 0 or a < 0 or b > a:
            return 0
        return math.comb(a, b)

    if _np.ndim(n) == 0 and _np.ndim(k) == 0:
        return f(n, k)
    nn, kk = _np.broadcast_arrays(_np.asarray(n), _np.asarray(k))
    out = _np.empty(nn.shape, dtype=object)
    of = out.reshape(-1)
    for i, (a, b) in enumerate(zip(nn.reshape(-1), kk.reshape(-1))):
        of[i] = f(a, b)
    return _as_exact_numeric(out)


def exact_perm(n, k, exact=False):
    def f(a, b):
        a, b = int(a), int(b)
        if b < 0 or a < 0 or b > a:
            return 0
        return math.perm(a, b)

    if _np.ndim(n) == 0 and _np.ndim(k) == 0:
        return f(n, k)
    nn, kk = _np.broadcast_arrays(_np.asarray(n), _np.asarray(k))
    out = _np.empty(nn.shape, dtype=object)
    of = out.reshape(-1)
    for i, (a, b) in enumerate(zip(nn.reshape(-1), kk.reshape(-1))):
        of[i] = f(a, b)
    return _as_exact_numeric(out)


def exact_eval_hermite(n, x):
    """physicists' Hermite polynomial H_n(x) by recurrence, elementwise on object arrays"""

    def h(k, t):
        k = int(k)
        t = lift(t)
        h0, h1 = ONE, 2 * t
        if k == 0:
            return h0
        for j in range(1, k):
            h0, h1 = h1, 2 * t * h1 - 2 * j * h0
        return h1

    nn, xx = _np.broadcast_arrays(_np.asarray(n), _np.asarray(x, dtype=object))
    out = _np.empty(nn.shape, dtype=object)
    of = out.reshape(-1)
    for i, (a, b) in enumerate(zip(nn.reshape(-1), xx.reshape(-1))):
        of[i] = h(a, b)
    return out.view(SymArray) if out.ndim else out[()]
