"""Control flow over symbolic reals: decision oracle (z3, cvc5 as second opinion), depth-first path
exploration by re-execution, and branch obligations `path condition => formula`.

A comparison on symbolic reals asks `Explorer.decide`.  If the current path condition implies or
refutes it (unsat of the opposite), execution continues; otherwise the run forks and the function is
re-executed once per branch.  Every completed path carries its path condition, which is checked
satisfiable (no vacuous obligations).
"""
import time
from fractions import Fraction

from . import alg
from . import sym as S
from .alg import Undecided, Value

RELS = {"<": lambda a: a < 0, "<=": lambda a: a <= 0, ">": lambda a: a > 0, ">=": lambda a: a >= 0,
        "==": lambda a: a == 0, "!=": lambda a: a != 0}
NEG = {"<": ">=", "<=": ">", ">": "<=", ">=": "<", "==": "!=", "!=": "=="}

Z3_TIMEOUT_MS = 20000


# --------------------------------------------------------------------------------------------
# formulas: ("atom", Value, rel) | ("and", [..]) | ("or", [..]) | ("not", f) | ("true",) | ("false",)


def atom(x, rel, y=0):
    d = S.expand(S.lift(x) - S.lift(y))
    return ("atom", d, rel)


def And(*fs):
    return ("and", list(fs))


def Or(*fs):
    return ("or", list(fs))


def Not(f):
    return ("not", f)


TRUE = ("true",)


class Z3Enc:
    """translation of canonical values to z3 reals with the defining constraints of the atoms"""

    def __init__(self):
        import z3

        self.z3 = z3
        self.vars = {}
        self.roots = {}
        self.side = []
        self.done_atoms = set()
        self.C = alg.ctx()

    def var(self, s):
        z3 = self.z3
        C = self.C
        if s in self.vars:
            return self.vars[s]
        kind = C.kinds[s]
        v = z3.Real("v%d_%s" % (s, C.names[s].replace(".", "_")))
        self.vars[s] = v
        if kind == "pos":
            self.side.append(v > 0)
        elif kind == "prime":
            p = [k for k, t in C.primes.items() if t == s][0]
            self.side.append(v == p)
        elif kind == "rad":
            self.side.append(v > 0)
            self.side.append(v * v == self.poly(C.factors[C.radf[s]]))
        elif kind == "exp":
            self.side.append(v > 0)
        elif kind == "def":
            self.side.append(v > 0)
            self.side.append(v == self.poly(C.defs[s]))
        elif kind == "gsq":
            arg = [a for t, a in C.gsq if t == s][0]
            n, d = self.value(arg)
            self.side.append(v >= 0)
            self.side.append(v * v * d == n)
        elif kind == "imag":
            raise Undecided("complex values in a real-arithmetic decision")
        return v

    def root(self, s):
        """fourth root of a positive symbol"""
        if s not in self.roots:
            z3 = self.z3
            r = z3.Real("r%d" % s)
            self.roots[s] = r
            self.side.append(r > 0)
            self.side.append(r * r * r * r == self.var(s))
        return self.roots[s]

    def mono(self, m):
        e = None
        for s, q in self.C.items(m):
            if q % alg.QU == 0:
                t = self.var(s) ** (q // alg.QU) if q // alg.QU > 1 else self.var(s)
            else:
                r = self.root(s)
                t = r**q if q > 1 else r
            e = t if e is None else e * t
        return e

    def poly(self, p):
        z3 = self.z3
        tot = None
        for m, c in p.items():
            mm = self.mono(m)
            t = z3.RealVal(c) if mm is None else mm * z3.RealVal(c)
            tot = t if tot is None else tot + t
        return tot if tot is not None else z3.RealVal(0)

    def value(self, v):
        """(numerator, denominator) z3 terms of a (collapsed) value"""
        v = alg.collapse(v)
        z3 = self.z3
        num = self.poly(v.n)
        den = z3.RealVal(v.di)
        dm = self.mono(v.dm)
        if dm is not None:
            den = den * dm
        for f, p in v.df.items():
            fp = self.poly(self.C.factors[f])
            for _ in range(p):
                den = den * fp
            self.side.append(fp != 0)
        return num, den

    def rel(self, v, rel):
        """v rel 0 as a z3 formula; denominators are handled through their sign"""
        z3 = self.z3
        num, den = self.value(v)
        if rel in ("==", "!="):
            return num == 0 if rel == "==" else num != 0
        # sign(num/den) = sign(num*den) for den != 0
        pd = num * den
        return {"<": pd < 0, "<=": pd <= 0, ">": pd > 0, ">=": pd >= 0}[rel]

    def formula(self, f):
        z3 = self.z3
        k = f[0]
        if k == "atom":
            return self.rel(f[1], f[2])
        if k == "and":
            return z3.And([self.formula(g) for g in f[1]]) if f[1] else z3.BoolVal(True)
        if k == "or":
            return z3.Or([self.formula(g) for g in f[1]]) if f[1] else z3.BoolVal(False)
        if k == "not":
            return z3.Not(self.formula(f[1]))
        if k == "true":
            return z3.BoolVal(True)
        if k == "false":
            return z3.BoolVal(False)
        raise ValueError(k)

    def transcendental_axioms(self):
        """sound instances of exp/log facts on the atoms present: positivity (above), strict
        monotonicity pairwise, exp(0)=1 / log(1)=0 anchoring, log(exp) links are not needed."""
        z3 = self.z3
        C = self.C
        ax = []
        logs = [(s, a) for s, a in C.logs if s in self.vars]
        for i, (s, a) in enumerate(logs):
            an, ad = self.value(a)
            x = self.var(s)
            # log x < 0 <=> x < 1 ; log x = 0 <=> x = 1 ; log x <= x - 1
            ax.append(z3.Implies(an * ad < ad * ad, x < 0))
            ax.append(z3.Implies(an * ad > ad * ad, x > 0))
            ax.append(z3.Implies(an == ad, x == 0))
            for (s2, a2) in logs[i + 1:]:
                bn, bd = self.value(a2)
                y = self.var(s2)
                # a/ad < b/bd <=> log a < log b  (arguments positive by the recorded side condition)
                lt = an * ad * bd * bd < bn * bd * ad * ad
                ax.append(lt == (x < y))
                ax.append((an * bd == bn * ad) == (x == y))
        exps = [(s, a) for s, a in C.exps if s in self.vars]
        for i, (s, a) in enumerate(exps):
            an, ad = self.value(a)
            x = self.var(s)
            ax.append(z3.Implies(an * ad < 0, x < 1))
            ax.append(z3.Implies(an * ad > 0, x > 1))
            ax.append(z3.Implies(an == 0, x == 1))
            for (s2, a2) in exps[i + 1:]:
                bn, bd = self.value(a2)
                y = self.var(s2)
                lt = an * ad * bd * bd < bn * bd * ad * ad
                ax.append(lt == (x < y))
        return ax


def _solve(formulas, want_model=False):
    """sat / unsat / unknown for the conjunction (with atom side constraints)"""
    import z3

    enc = Z3Enc()
    fs = [enc.formula(f) for f in formulas]
    # encode again after all variables exist so that axioms see every atom
    ax = enc.transcendental_axioms()
    s = z3.Solver()
    s.set("timeout", Z3_TIMEOUT_MS)
    for c in enc.side + ax + fs:
        s.add(c)
    t = time.time()
    r = s.check()
    dt = time.time() - t
    if r == z3.sat:
        model = None
        if want_model:
            m = s.model()
            model = {}
            C = alg.ctx()
            for sidx, v in enc.vars.items():
                if C.kinds[sidx] in ("real", "pos", "opq"):
                    val = m.eval(v, model_completion=True)
                    model[C.names[sidx]] = _z3num(val)
        return "sat", model, dt
    if r == z3.unsat:
        return "unsat", None, dt
    return "unknown", None, dt


def _z3num(val):
    import z3

    if z3.is_rational_value(val):
        return str(Fraction(val.numerator_as_long(), val.denominator_as_long()))
    if z3.is_algebraic_value(val):
        a = val.approx(30)
        return str(Fraction(a.numerator_as_long(), a.denominator_as_long()))
    return "0"


def pc_formulas(pc):
    out = []
    for d, rel, truth in pc:
        out.append(("atom", d, rel if truth else NEG[rel]))
    return out


class Explorer:
    def __init__(self):
        self.prefix = []
        self.trace = []
        self.pc = []
        self.stats = {"queries": 0, "secs": 0.0, "unknown": 0}
        self.fixed = []  # standing assumptions (preconditions) as formulas

    def assume(self, f):
        self.fixed.append(f)

    def _fresh_linear(self, d):
        C = alg.ctx()
        if type(d) is not Value or d.dm != C.one or d.df:
            return False
        if self.fixed:
            return False  # standing assumptions may mention anything: leave those cases to the solver
        used = getattr(self, "_used", None)
        if used is None or self._used_n > len(self.pc):
            used, self._used_n = set(), 0
        for dd, _r, _c in self.pc[self._used_n:]:
            used |= _plain_syms(dd)
        self._used, self._used_n = used, len(self.pc)
        if any(C.kinds[t] not in ("real", "pos", "opq") or t in C.boysinfo or any(x == t for x, _ in C.logs) for t in used):
            return False  # the path condition mentions composite atoms whose arguments are not visible here
        occ = {}
        for m in d.n:
            for t, e in C.items(m):
                if C.kinds[t] not in ("real", "pos", "opq") or t in C.boysinfo or any(x == t for x, _ in C.logs):
                    return False
                occ.setdefault(t, []).append((m, e))
        for t, lst in occ.items():
            if C.kinds[t] != "real" or t in used:
                continue
            # t only to the first power, and alone in its monomial (constant cofactor)
            if all(e == alg.QU and len(C.items(m)) == 1 for m, e in lst) and len(lst) == 1:
                return True
        return False

    def decide(self, a, b, rel):
        d = S.expand(a - b)
        if d.is_const():
            q = d.as_fraction()
            return RELS[rel](q)
        if alg.v_equal(d, Value({})):
            return rel in ("==", "<=", ">=")
        cond = ("atom", d, rel)
        if rel in ("==", "!=") and self._fresh_linear(d):
            # d is linear in a real symbol that nothing decided or assumed so far mentions, with a constant cofactor:
            # both d == 0 and d != 0 extend any model of the path condition, so this is a genuine fork (no solver call)
            i = len(self.trace)
            choice = self.prefix[i] if i < len(self.prefix) else True
            self.trace.append(choice)
            self.pc.append((d, rel, choice))
            return choice
        base = self.fixed + pc_formulas(self.pc)
        self.stats["queries"] += 2
        r1, _, t1 = _solve(base + [cond])
        r2, _, t2 = _solve(base + [Not(cond)])
        self.stats["secs"] += t1 + t2
        if r1 == "unsat" and r2 == "unsat":
            raise Undecided("path condition is unsatisfiable")
        if r2 == "unsat":
            return True
        if r1 == "unsat":
            return False
        if "unknown" in (r1, r2):
            self.stats["unknown"] += 1
        i = len(self.trace)
        choice = self.prefix[i] if i < len(self.prefix) else True
        self.trace.append(choice)
        self.pc.append((d, rel, choice))
        return choice


class Path:
    def __init__(self, pc, outcome, exc, fixed):
        self.pc = pc
        self.outcome = outcome
        self.exc = exc
        self.fixed = fixed

    def formulas(self):
        return self.fixed + pc_formulas(self.pc)


def explore(fn, assumptions=(), max_paths=256, catch=(Exception,)):
    """run fn() once per feasible path; returns list of Path"""
    paths = []
    stack = [[]]
    stats = {"queries": 0, "secs": 0.0, "unknown": 0}
    while stack:
        prefix = stack.pop()
        ex = Explorer()
        ex.prefix = prefix
        for f in assumptions:
            ex.assume(f)
        S.set_decider(ex.decide)
        outcome, exc = None, None
        try:
            try:
                outcome = fn()
            except Undecided:
                raise
            except catch as e:  # the function under verification raised
                exc = e
        finally:
            S.set_decider(None)
        for k in stats:
            stats[k] += ex.stats[k]
        paths.append(Path(list(ex.pc), outcome, exc, list(ex.fixed)))
        # schedule the alternatives of the decisions made beyond the prefix
        for i in range(len(prefix), len(ex.trace)):
            alt = ex.trace[:i] + [not ex.trace[i]]
            stack.append(alt)
        if len(paths) > max_paths:
            raise Undecided("more than %d paths" % max_paths)
    return paths, stats


def check_implies(path_formulas, concl):
    """pc => concl ?  returns (status, model) with status in discharged / failed / undecided"""
    r, model, dt = _solve(path_formulas + [Not(concl)], want_model=True)
    if r == "unsat":
        return "discharged", None, dt
    if r == "sat":
        return "failed", model, dt
    return "undecided", None, dt


def check_sat(path_formulas):
    r, model, dt = _solve(path_formulas, want_model=True)
    return r, model, dt


def _eval_formula(f, symenv, F):
    k = f[0]
    if k == "atom":
        v = alg.evalv(f[1], symenv, F)
        return RELS[f[2]](v)
    if k == "and":
        return all(_eval_formula(g, symenv, F) for g in f[1])
    if k == "or":
        return any(_eval_formula(g, symenv, F) for g in f[1])
    if k == "not":
        return not _eval_formula(f[1], symenv, F)
    return k == "true"


def numeric_counterexample(formulas, concl, model, tries=1200, seed=0):
    """a concrete point (true exp/log/sqrt) where every formula holds and concl fails; the solver's
    model is tried first, then points around it, then random points"""
    import random

    from . import fields

    C = alg.ctx()
    F = fields.MpField({}, 30)
    names = [n for i, n in enumerate(C.names) if C.kinds[i] in ("real", "pos", "opq") and n != "pi"
             and not any(t == i for t, _ in C.logs) and i not in C.boysinfo]
    rng = random.Random(seed)
    base = {k: Fraction(v) for k, v in (model or {}).items() if k in names}

    def attempt(env):
        symenv = {C.byname[k]: F.num(v) for k, v in env.items()}
        if "pi" in C.byname:
            symenv[C.byname["pi"]] = F.pi
        try:
            if all(_eval_formula(f, symenv, F) for f in formulas) and not _eval_formula(concl, symenv, F):
                if concl[0] == "atom":
                    try:
                        return float(abs(alg.evalv(concl[1], symenv, F)))
                    except Exception:
                        return 0.0
                return 0.0
        except (ZeroDivisionError, ValueError, KeyError, TypeError):
            return None
        return None

    best = (None, -1.0)
    cand = dict(base)
    for n in names:
        cand.setdefault(n, Fraction(1))
    m = attempt(cand)
    if m is not None:
        best = ({k: str(v) for k, v in cand.items()}, m)
    else:
        # the solver treats ln / exp as uninterpreted: pin the symbols inside their arguments at the model's values,
        # give the atoms their true values and ask again for the remaining symbols (then validate with true functions)
        for _round in range(2):
            cand2 = _refine_model(formulas, concl, cand, names, F)
            if cand2 is None:
                break
            m = attempt(cand2)
            if m is not None:
                best = ({k: str(v) for k, v in cand2.items()}, m)
                break
            cand = cand2
    found = 0
    for i in range(tries):
        env = {}
        for n in names:
            kind = C.kinds[C.byname[n]]
            if i % 2 == 0 and n in base:
                v = base[n] * Fraction(rng.randint(50, 200), 100) + Fraction(rng.randint(-20, 20), 100)
            else:
                v = Fraction(rng.randint(-300, 300), 100) * (1, 1, 3, 8)[i % 4]
            if kind == "pos":
                v = abs(v) + Fraction(1, 100)
                if n in ("eps", "tol") or n.startswith("eps"):
                    v = Fraction(rng.randint(1, 99), 100)
            env[n] = v
        m = attempt(env)
        if m is not None:
            found += 1
            if m > best[1]:
                best = ({k: str(v) for k, v in env.items()}, m)
            if found >= 10 or (concl[0] != "atom"):
                break
    LAST_DIFF[0] = best[1]
    return best[0]


LAST_DIFF = [0.0]


def check_point(formulas, concl, env):
    """True when every formula holds and concl fails at the concrete point env {name: rational string} (true exp/log/sqrt)"""
    from . import fields

    C = alg.ctx()
    F = fields.MpField({}, 30)
    try:
        symenv = {C.byname[k]: F.num(Fraction(v)) for k, v in env.items() if k in C.byname}
        if "pi" in C.byname:
            symenv[C.byname["pi"]] = F.pi
        return all(_eval_formula(f, symenv, F) for f in formulas) and not _eval_formula(concl, symenv, F)
    except Exception:
        return False


def _plain_syms(v):
    C = alg.ctx()
    out = set()
    for part in alg.simple_parts(v):
        monos = list(part.n) + [part.dm]
        for f in part.df:
            monos += list(C.factors[f])
        for mo in monos:
            for t, _ in C.items(mo):
                out.add(t)
    return out


def _refine_model(formulas, concl, cand, names, F):
    C = alg.ctx()
    atoms = [(sy, arg, "log") for sy, arg in C.logs] + [(sy, arg, "exp") for sy, arg in C.expsyms.items()]
    if not atoms:
        return None
    if concl[0] == "atom" and sum(len(part.n) for part in alg.simple_parts(concl[1])) > 120:
        return None  # too large for the solver to be of any use; the random search below still runs
    extra, pinned = [], set()
    symenv = {C.byname[k]: F.num(v) for k, v in cand.items()}
    if "pi" in C.byname:
        symenv[C.byname["pi"]] = F.pi
    for sy, arg, kind in atoms:
        try:
            x = alg.evalv(arg, symenv, F)
            val = F.log(x) if kind == "log" else F.exp(x)
            q = Fraction(str(val)).limit_denominator(10 ** 12)
        except Exception:
            continue
        for t in _plain_syms(arg):
            if C.names[t] in cand and t not in pinned:
                pinned.add(t)
                extra.append(("atom", alg.v_sub(alg.Value({C.mono([(t, alg.QU)]): 1}), alg.Value.const(Fraction(cand[C.names[t]]))), "=="))
        extra.append(("atom", alg.v_sub(alg.Value({C.mono([(sy, alg.QU)]): 1}), alg.Value.const(q)), "=="))
    if not extra:
        return None
    try:
        r, model, _dt = _solve(list(formulas) + [Not(concl)] + extra, want_model=True)
    except Undecided:
        return None  # e.g. a complex-valued conclusion: nothing the real-arithmetic solver can refine
    if r != "sat" or not model:
        return None
    out = dict(cand)
    for k, v in model.items():
        if k in names:
            out[k] = Fraction(v)
    return out
