"""Replay of a counterexample against the unmodified code in a plain interpreter (no proxy).

stdin: {"harness": ref, "shape": ..., "env": {symbol: rational string}, "obligation": name}
stdout (last line): {"verdict": "native-disagrees-with-spec" | "native-agrees-with-spec" | ..., ...}
"""
import json
import sys
import warnings

warnings.simplefilter("ignore")


def main():
    payload = json.load(sys.stdin)
    from engine import runner

    structural = payload["obligation"].startswith("well-defined/")
    rec = runner.run_task(payload["harness"], payload["shape"], kind="float", env=payload["env"],
                          wanted=None if structural else payload["obligation"], sample_seed=payload.get("sample_seed"))
    if structural:
        # a well-definedness obligation has no float counterpart: replay = does ANY clause of the contract
        # fail on the unmodified code at the solver's point (nan / inf / wrong value)?
        h = runner.load_harness(payload["harness"])
        tol = getattr(h, "tol", 1e-8)
        for r in rec["results"]:
            bad = r["status"] == "failed"
            if r["status"] == "value":
                g, e = runner._parse_num(r["got"]), runner._parse_num(r["exp"])
                bad = not (abs(g - e) <= tol * max(abs(e), abs(g), 1))
            if bad:
                print(json.dumps({"verdict": "native-disagrees-with-spec", "obligation_failing_natively": r["name"],
                                  "native": r.get("got"), "spec": r.get("exp"), "detail": r.get("detail")}))
                return
        print(json.dumps({"verdict": "native-agrees-with-spec" if rec["status"] == "ok" else "replay-crashed", "error": rec.get("error")}))
        return
    out = {"verdict": "obligation-not-reached", "task_status": rec["status"], "error": rec.get("error")}
    if payload["obligation"] == "returns-normally":
        rs = [r for r in rec["results"] if r["name"] == "returns-normally"]
        print(json.dumps({"verdict": "native-disagrees-with-spec" if rs else "native-agrees-with-spec",
                          "detail": rs[0]["detail"][:1500] if rs else "the unmodified code returned normally"}))
        return
    h = runner.load_harness(payload["harness"])
    tol = getattr(h, "tol", 1e-8)
    for r in rec["results"]:
        if runner._nopath(r["name"]) != runner._nopath(payload["obligation"]):
            continue
        if r["status"] == "value":
            import mpmath

            def cv(x):
                if isinstance(x, list):
                    return mpmath.mpc(mpmath.mpf(x[0]), mpmath.mpf(x[1]))
                x = x.strip("()")
                try:
                    return mpmath.mpf(x)
                except Exception:
                    return mpmath.mpmathify(complex(x))

            g, e = cv(r["got"]), cv(r["exp"])
            scale = max(abs(e), abs(g), 1)
            if r.get("scale") is not None:
                scale = abs(runner._parse_num(r["scale"]))
                tol = getattr(h, "fp_tol", tol)
            bad = not (abs(g - e) <= tol * scale + 1e-280)  # also true for nan / inf; doubles underflow below 1e-280
            out = {"verdict": "native-disagrees-with-spec" if bad else "native-agrees-with-spec",
                   "native": r["got"], "spec": r["exp"], "tolerance": tol}
        elif r["status"] == "failed":
            out = {"verdict": "native-disagrees-with-spec", "detail": r.get("detail")}
        else:
            out = {"verdict": "native-agrees-with-spec", "detail": r.get("detail")}
        break
    if rec["status"] == "crash":
        out["trace"] = rec.get("trace")
    print(json.dumps(out))


if __name__ == "__main__":
    main()
