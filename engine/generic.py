"""Generic-element execution of array recursions: contracts that are UNBOUNDED in the array extents.

The per-shape symbolic execution (engine/sym.py) runs the real code on arrays of concrete shape, so every verdict
holds for the enumerated angular momenta only.  The recursion kernels of gbasis, however, are uniform in their
extents: a table `integrals[k, j, i, ...]` is filled by slice assignments and by loops `for i in range(1, n)` whose
bodies mention the loop variable only in index expressions `i - 1, i, i + 1` and as a numeric coefficient.  This
module runs the REAL function object once with

  * symbolic extents  (`Aff`: affine integer expressions over named integer symbols n_a, n_b, n_k >= 0),
  * the module's `range` replaced by one that yields ONE symbolic iteration variable  lo <= t < hi,
  * `np.zeros(shape with symbolic extents)` returning a `GArray`, `np.arange(symbolic)` a `GIota`,

and gives basic slicing its GENERIC-ELEMENT meaning: a slice of symbolic length is one axis "slot" whose generic
position p (0 <= p < length) stands for all of its elements; element-wise arithmetic combines the operands at the
same generic position (numpy's right-aligned broadcasting); an assignment `table[index] = value` is recorded as
"for every generic position: element <index triple> := <value>", where reading an element of the table yields the
opaque atom S[k, j, i] (the inductive hypothesis: what was written before satisfies the specification).

From the recorded events the harness generates verification conditions:

  value      every written value equals the right-hand side of one of the specification's recurrences at the written
             index (polynomial identity in the atoms S[...], the index symbols and the inputs)         -> engine/alg.py
  read       every element read was written earlier in program order (by an earlier statement, or by an earlier
             iteration of the same loop), for ALL extents and iterations                               -> z3, linear integers
  bounds     every integer index lies inside the table; aligned slices have equal length              -> z3
  coverage   at return every element of the table has been written                                    -> z3

By induction over the execution order these imply: the returned table equals the specification everywhere, for every
extent.  Assumed (and stated in the evidence): this module's reading of numpy's basic indexing (integers, slices with
constant bounds, None), right-aligned broadcasting and in-order evaluation of slice assignments; that `range(lo, hi)`
iterates lo, lo+1, ..., hi-1 in order.  Everything else (arithmetic on the inputs, exp, sqrt, pi) runs through the same
proxy as the per-shape runs."""
import itertools

import numpy as _np

from . import alg
from . import sym as S


class Aff:
    """affine integer expression  const + sum coef * name"""

    __array_ufunc__ = None

    def __init__(self, terms=None, const=0):
        self.t = {k: v for k, v in (terms or {}).items() if v}
        self.c = int(const)

    @staticmethod
    def var(name):
        return Aff({name: 1})

    @staticmethod
    def of(x):
        if isinstance(x, Aff):
            return x
        if isinstance(x, (int, _np.integer)):
            return Aff(None, int(x))
        raise TypeError("not an integer expression: %r" % (x,))

    def __add__(self, o):
        o = Aff.of(o)
        t = dict(self.t)
        for k, v in o.t.items():
            t[k] = t.get(k, 0) + v
        return Aff(t, self.c + o.c)

    __radd__ = __add__

    def __neg__(self):
        return Aff({k: -v for k, v in self.t.items()}, -self.c)

    def __sub__(self, o):
        return self + (-Aff.of(o))

    def __rsub__(self, o):
        return Aff.of(o) - self

    def __mul__(self, o):
        if isinstance(o, (int, _np.integer)):
            return Aff({k: v * int(o) for k, v in self.t.items()}, self.c * int(o))
        if isinstance(o, Aff) and not o.t:
            return self * o.c
        if isinstance(o, Aff) and not self.t:
            return o * self.c
        return NotImplemented  # numeric use (coefficient of a value): GVal / Sym arithmetic takes over

    def __rmul__(self, o):
        if isinstance(o, (int, _np.integer)):
            return self * o
        return NotImplemented

    def __truediv__(self, o):
        if isinstance(o, (int, float, _np.integer, _np.floating)) and any(n in (CTX[0].sizes if CTX[0] else ()) for n in self.t):
            if CTX[0] is not None and CTX[0].allow_extent_exponents and float(o) == int(o):
                return ExtExp(self, int(o))
            raise StageEnd("an extent is divided by a number (e.g. l / 2 as an exponent): beyond the generic-element fragment")
        return GVal.lift(self) / o

    def __rtruediv__(self, o):
        return o / GVal.lift(self)

    def is_const(self):
        return not self.t

    # ---- comparisons: decided from the extents' premises and what was assumed so far, else a case split (see run_cases)
    def _cmp(self, o, rel):
        if not isinstance(o, (Aff, int, _np.integer)):
            return NotImplemented
        d = self - Aff.of(o)
        if d.is_const():
            return {"ge": d.c >= 0, "gt": d.c > 0, "le": d.c <= 0, "lt": d.c < 0, "eq": d.c == 0, "ne": d.c != 0}[rel]
        C = CTX[0]
        if C is None:
            raise TypeError("comparison of symbolic extents outside a generic-element run")
        return C.decide(d, rel)

    def __ge__(self, o):
        return self._cmp(o, "ge")

    def __gt__(self, o):
        return self._cmp(o, "gt")

    def __le__(self, o):
        return self._cmp(o, "le")

    def __lt__(self, o):
        return self._cmp(o, "lt")

    def __eq__(self, o):
        r = self._cmp(o, "eq")
        return False if r is NotImplemented else r

    def __ne__(self, o):
        r = self._cmp(o, "ne")
        return True if r is NotImplemented else r

    __hash__ = object.__hash__

    def __bool__(self):
        return bool(self._cmp(0, "ne"))

    def key(self):
        return (tuple(sorted(self.t.items())), self.c)

    def __repr__(self):
        parts = ["%s%s" % ("" if v == 1 else "%d*" % v, k) for k, v in sorted(self.t.items())]
        if self.c or not parts:
            parts.append(str(self.c))
        return "+".join(parts).replace("+-", "-")

    def __index__(self):
        if self.t:
            raise alg.Undecided("symbolic extent used as a concrete integer (e.g. to slice an ordinary array): outside the generic-element fragment")
        return self.c

    def to_sym(self):
        """the same expression as a symbolic real (index symbols become real symbols of the same name)"""
        r = S.lift(self.c)
        for k, v in sorted(self.t.items()):
            r = r + S.Sym.symbol(k, "real") * v
        return r

    def z3(self, env):
        import z3

        r = z3.IntVal(self.c)
        for k, v in self.t.items():
            r = r + env(k) * v
        return r


class ExtExp:
    """extent / n used as an exponent: base ** (l / n) is an opaque positive atom pow[<base>; l/n] (the same construction on
    the specification side yields the same atom)"""

    __array_ufunc__ = None

    def __init__(self, aff, den):
        self.aff, self.den = aff, den

    def generic_power_of(self, base):
        v = S.expand(S.lift(base))
        name = "pow[%s;(%r)/%d]" % (alg.fmt(v, 40), self.aff, self.den)
        return S.Sym.symbol(name, "pos")

    def __rpow__(self, base):
        if isinstance(base, _np.ndarray):
            out = _np.empty(base.shape, dtype=object)
            of, bf = out.reshape(-1), _np.asarray(base, dtype=object).reshape(-1)
            for i in range(bf.size):
                of[i] = self.generic_power_of(bf[i])
            return out.view(S.SymArray) if isinstance(base, S.SymArray) else out
        return self.generic_power_of(base)


class StageEnd(Exception):
    """the real code leaves the fragment the generic-element execution understands; what was recorded up to here is
    verified, the rest of the function is covered by the per-shape contracts only"""


class Ctx:
    """event log of one generic-element run"""

    def __init__(self, sizes):
        self.sizes = sizes  # names of the extent symbols (each >= 0)
        self.events = []
        self.loops = []  # stack of (loop id, var name, lo Aff, hi Aff)
        self.nloop = 0
        self.seq = 0
        self.obligations = []  # (kind, description, z3-ready data)
        self.atoms = {}
        self.ntab = 0  # tables created so far (each GArray gets an id; its atoms are S<id>[...])
        self.allow_extent_exponents = False
        self.prefix, self.trace, self.assumed = [], [], []  # case split on comparisons of extents / loop variables

    def decide(self, d, rel):
        """d rel 0 for an affine integer expression d: implied / refuted by the premises, else a case split"""
        import z3

        env, _ = _z3env()
        dz = d.z3(env)
        cond = {"ge": dz >= 0, "gt": dz > 0, "le": dz <= 0, "lt": dz < 0, "eq": dz == 0, "ne": dz != 0}[rel]
        base = [env(n) >= 0 for n in self.sizes] + [_cons_z3(loop_cons(self.loops) + self.assumed, env)]
        if check_valid(base, cond, 5000)[0] == "discharged":
            return True
        if check_valid(base, z3.Not(cond), 5000)[0] == "discharged":
            return False
        if not getattr(self, "cases_enabled", False):
            raise alg.Undecided("the code compares an extent / loop variable (%r %s 0): this contract does not split cases" % (d, rel))
        i = len(self.trace)
        choice = self.prefix[i] if i < len(self.prefix) else True
        self.trace.append(choice)
        neg = {"ge": "lt", "gt": "le", "le": "gt", "lt": "ge", "eq": "ne", "ne": "eq"}[rel]
        self.assumed.append((rel if choice else neg, d, Aff.of(0)))
        return choice

    def atom(self, *a):
        return self.named_atom("S", *a)

    def named_atom(self, nm, *a):
        idx, tail = tuple(a[:-1]), a[-1]
        key = (nm, tuple(e.key() for e in idx), tail)
        if key not in self.atoms:
            name = "%s[%s|%s]" % (nm, ",".join(repr(e) for e in idx), ",".join(map(str, tail)))
            self.atoms[key] = (S.Sym.symbol(name, "opq"), idx, tail)
        return self.atoms[key][0]


CTX = [None]


def grange(*a):
    """range with symbolic bounds: one generic iteration"""
    C = CTX[0]
    if C is None or all(isinstance(x, (int, _np.integer)) for x in a):
        return range(*a)
    lo, hi = (Aff.of(0), Aff.of(a[0])) if len(a) == 1 else (Aff.of(a[0]), Aff.of(a[1]))
    if len(a) == 3 and a[2] != 1:
        raise alg.Undecided("generic range with a step")

    def gen():
        import sys

        C.nloop += 1
        name = "t%d" % C.nloop
        C.loops.append((C.nloop, name, lo, hi))
        var = Aff.var(name)
        frame = sys._getframe(1)  # the gbasis function whose for-loop drives this generator
        before = {k: id(v) for k, v in frame.f_locals.items()}
        try:
            yield var
            # the body ran once with a symbolic iteration variable: that stands for every iteration only if the body carries
            # no state from one iteration to the next other than the tables - a local that existed before the loop and is
            # rebound inside it would be such a state
            after = frame.f_locals
            carried = [k for k, i0 in before.items() if k in after and id(after[k]) != i0 and after[k] is not var]
            if carried:
                raise alg.Undecided("local variable(s) %s rebound inside a loop with symbolic bounds (loop-carried state is outside "
                                    "the generic-element fragment)" % ", ".join(sorted(carried)))
        finally:
            C.loops.pop()

    return gen()


class SymAxis:
    """kept axis of symbolic length: elements lo + p for generic position p, bounded by `ubs` (exclusive upper bounds)"""

    def __init__(self, lo, ubs):
        self.lo, self.ubs = lo, ubs


def _norm_slice(sl, D):
    """(lo, [exclusive upper bounds]) of slice sl on an axis of symbolic size D (an Aff, D >= 1)"""
    if sl.step not in (None, 1):
        raise alg.Undecided("generic slice with a step")
    lo = 0 if sl.start is None else sl.start
    if isinstance(lo, Aff):
        raise alg.Undecided("generic slice with a symbolic start")
    lo = Aff.of(lo) if lo >= 0 else D + lo
    ubs = [D]
    if sl.stop is not None:
        if isinstance(sl.stop, Aff):
            ubs.append(sl.stop)  # symbolic stop (>= 0 by the extent premises)
        else:
            ubs.append(Aff.of(sl.stop) if sl.stop >= 0 else D + sl.stop)
    return lo, ubs


class GVal:
    """value at the generic position: `data` is an object array over the concrete axes (symbolic-length axes have
    length 1 in it); `sym` maps the position-from-the-right of each symbolic axis to its SymAxis list (one per operand
    that contributed, for the equal-length obligations)"""

    __array_ufunc__ = None
    __array_priority__ = 1000.0

    def __init__(self, data, sym, reads=()):
        self.data, self.sym, self.reads = data, sym, list(reads)

    @staticmethod
    def lift(x):
        if isinstance(x, GVal):
            return x
        if isinstance(x, Aff):
            return GVal(_np.array(x.to_sym(), dtype=object), {}, [])
        if isinstance(x, _np.ndarray):
            return GVal(_np.asarray(x, dtype=object), {}, [])
        return GVal(_np.array(S.lift(x), dtype=object), {}, [])

    def _bin(self, o, f):
        o = GVal.lift(o)
        a, b = self.data, o.data
        # right-aligned broadcasting; a symbolic axis may only meet a symbolic axis or a concrete axis of length 1
        na, nb = a.ndim, b.ndim
        for slot in set(self.sym) | set(o.sym):
            for arr, has in ((a, slot in self.sym), (b, slot in o.sym)):
                if not has and slot <= arr.ndim and arr.shape[arr.ndim - slot] != 1:
                    raise alg.Undecided("a symbolic-length axis meets a concrete axis of length %d" % arr.shape[arr.ndim - slot])
        sym = {k: list(v) for k, v in self.sym.items()}
        for k, v in o.sym.items():
            sym.setdefault(k, []).extend(v)
        return GVal(f(a, b), sym, self.reads + o.reads)

    def __add__(self, o):
        return self._bin(o, lambda a, b: a + b)

    def __radd__(self, o):
        return GVal.lift(o)._bin(self, lambda a, b: a + b)

    def __sub__(self, o):
        return self._bin(o, lambda a, b: a - b)

    def __rsub__(self, o):
        return GVal.lift(o)._bin(self, lambda a, b: a - b)

    def __mul__(self, o):
        return self._bin(o, lambda a, b: a * b)

    def __rmul__(self, o):
        return GVal.lift(o)._bin(self, lambda a, b: a * b)

    def __truediv__(self, o):
        return self._bin(o, lambda a, b: a / b)

    def __rtruediv__(self, o):
        return GVal.lift(o)._bin(self, lambda a, b: a / b)

    def __neg__(self):
        return GVal(-self.data, self.sym, self.reads)

    def __getitem__(self, idx):
        """re-slicing of a value: ':' everywhere, or a prefix slice ':n' (n an extent expression) on a symbolic-length axis"""
        if not isinstance(idx, tuple):
            idx = (idx,)
        nd = self.data.ndim
        idx = idx + (slice(None),) * (nd - len(idx))
        if len(idx) != nd:
            raise alg.Undecided("indexing a value with %d indices (it has %d axes)" % (len(idx), nd))
        sym = {k: list(v) for k, v in self.sym.items()}
        for pos, x in enumerate(idx):
            slot = nd - pos
            if not isinstance(x, slice) or x.start not in (None, 0) or x.step not in (None, 1):
                raise alg.Undecided("only ':' and ':n' are supported when a value is sliced again")
            if x.stop is None:
                continue
            if slot not in sym:
                raise alg.Undecided("a prefix slice on a concrete axis of a value")
            sym[slot] = [SymAxis(ax.lo, ax.ubs + [ax.lo + Aff.of(x.stop)]) for ax in sym[slot]]
        reads = []
        for r in self.reads:  # the elements read are now only those inside the prefix
            r = dict(r)
            extra = []
            for pos, x in enumerate(idx):
                if isinstance(x, slice) and x.stop is not None:
                    extra.append(("lt", Aff.var("p%d" % (nd - pos)), Aff.of(x.stop)))
            r["cons"] = r["cons"] + extra
            reads.append(r)
        return GVal(self.data, sym, reads)

    def transposed(self, perm):
        """np.transpose of a value: the generic positions are named after the position of their axis from the right, so the
        position variables (in index symbols, atoms and recorded reads) are renamed along with the axes"""
        if perm is None:
            perm = tuple(range(self.data.ndim))[::-1]
        perm = tuple(int(x) for x in perm)
        nd = self.data.ndim
        if sorted(perm) != list(range(nd)):
            raise alg.Undecided("transpose of a value with an invalid permutation")
        ren = {}
        for newpos, oldpos in enumerate(perm):
            if (nd - oldpos) in self.sym and nd - oldpos != nd - newpos:
                ren["p%d" % (nd - oldpos)] = "q%d" % (nd - newpos)  # two-step renaming avoids clashes
        data = _np.transpose(self.data, perm)
        sym = {(nd - perm.index(nd - slot)): axs for slot, axs in self.sym.items()}
        newslot = lambda slot: nd - perm.index(nd - slot)
        reads = []
        for r in self.reads:
            r = dict(r)
            if r.get("kept"):
                r["kept"] = {k: newslot(sl) for k, sl in r["kept"].items()}
            if r.get("advslots"):
                r["advslots"] = {newslot(sl): a_ for sl, a_ in r["advslots"].items()}
            reads.append(r)
        if ren:
            data, reads = _rename_positions(data, reads, ren)
            fin = {v: "p" + v[1:] for v in ren.values()}
            data, reads = _rename_positions(data, reads, fin)
        return GVal(data, sym, reads)

    # method spellings of what GNp understands as functions
    @property
    def T(self):
        return self.transposed(None)

    def transpose(self, *axes):
        if len(axes) == 1 and (axes[0] is None or isinstance(axes[0], (tuple, list))):
            axes = axes[0]
        return self.transposed(axes if axes else None)

    def copy(self):
        return GVal(self.data.copy(), {k: list(v) for k, v in self.sym.items()}, list(self.reads))

    @property
    def ndim(self):
        return self.data.ndim

    def map(self, f):
        out = _np.empty(self.data.shape, dtype=object)
        of, df = out.reshape(-1), self.data.reshape(-1)
        for i in range(df.size):
            of[i] = f(S.lift(df[i]))
        return GVal(out, self.sym, self.reads)


def _drop_rows(reads, ndim, axis, keep_ndim):
    """reads of a value one of whose concrete axes is summed / contracted away (tensordot appends the new axis at the end, so
    the number of axes stays; a reduction removes the axis): the row bookkeeping of axes LEFT of it keeps its position from the
    right only with tensordot; everything else about rows is forgotten (the reads then count for every row)"""
    out = []
    for r in reads:
        r = dict(r)
        for key in ("kept", "advslots"):
            if r.get(key):
                d = {}
                for a, b in r[key].items():
                    slot = b if key == "kept" else a
                    pos = ndim - slot
                    if pos < axis and keep_ndim:
                        d[a] = b
                    elif pos > axis and not keep_ndim:
                        d[a] = b
                r[key] = d
        out.append(r)
    return out


def _rename_positions(data, reads, ren):
    """rename generic-position variables (ren: old name -> new name) in an object array of symbolic values - including inside
    the indices of the table atoms they mention - and in recorded read events"""
    from . import subst

    C = CTX[0]
    Cx = alg.ctx()

    def raff(a):
        return Aff({ren.get(k, k): v for k, v in a.t.items()}, a.c)

    senv = {}
    for old, new in ren.items():
        if old in Cx.byname:
            senv[Cx.byname[old]] = S.expand(S.Sym.symbol(new, "real"))
    for key, (symb, aidx, atail) in list(C.atoms.items()):
        if any(nm in ren for e in aidx for nm in e.t):
            newatom = C.named_atom(key[0], *(tuple(raff(e) for e in aidx) + (atail,)))
            vs = S.expand(symb)
            (mono,) = vs.n.keys()
            ((sidx, _e),) = Cx.items(mono)
            senv[sidx] = S.expand(newatom)
    out = _np.empty(data.shape, dtype=object)
    of, df = out.reshape(-1), data.reshape(-1)
    for i in range(df.size):
        of[i] = S.Sym.of_value(subst.substitute_all(S.expand(S.lift(df[i])), senv)) if senv else df[i]
    nreads = []
    for r in reads:
        r = dict(r)
        r["idx"] = tuple(raff(e) for e in r["idx"])
        r["cons"] = [(k, raff(a), raff(b)) for k, a, b in r["cons"]]
        r["bounds"] = [(raff(e), D) for e, D in r["bounds"]]
        nreads.append(r)
    return out, nreads


def _index(idx, dims, tail_shape, layout=None):
    """interpret an index on a table.  `layout` lists, for every actual axis, ('s', k) - the k-th axis of symbolic extent
    dims[k] - or ('c', k) - the k-th concrete axis of length tail_shape[k]; by default the symbolic axes come first.
    Returns (points {k: Aff} for integer-indexed symbolic axes, tpoints {k: int} for integer-indexed concrete axes,
    axes: the result axes left to right as ('sym', k, SymAxis) / ('one', k, Aff) / ('tail', n, k) / ('new',) / ('adv', n),
    adv: None or (broadcast shape, [(kind, k, index array broadcast to that shape)]) for integer-ARRAY indices, which must be
    the leading indices - numpy then puts the broadcast axes first)."""
    if layout is None:
        layout = [("s", k) for k in range(len(dims))] + [("c", k) for k in range(len(tail_shape))]
    if not isinstance(idx, tuple):
        idx = (idx,)
    nsrc = len(layout)
    given = sum(1 for x in idx if x is not None)
    if given < nsrc:
        idx = idx + (slice(None),) * (nsrc - given)  # missing trailing indices mean ':'
    elif given > nsrc:
        raise alg.Undecided("too many indices (got %r)" % (idx,))
    out, points, tpoints = [], {}, {}
    advs = []
    ax = 0
    seen_basic = False
    for x in idx:
        if x is None:
            out.append(("new",))
            seen_basic = True
            continue
        kind, k = layout[ax]
        if isinstance(x, _np.ndarray):
            if seen_basic:
                raise StageEnd("integer-array indices that are not the leading indices: beyond the generic-element fragment")
            advs.append((kind, k, x))
        elif kind == "s":
            seen_basic = True
            D = dims[k]
            if isinstance(x, slice):
                lo, ubs = _norm_slice(x, D)
                if D.is_const() and D.c == 1 and lo.is_const() and lo.c == 0:
                    out.append(("one", k, Aff.of(0)))  # the only element of a length-1 axis
                elif lo.is_const() and isinstance(x.stop, (int, _np.integer)) and x.stop >= 0 and x.stop - lo.c == 1 and lo.c == 0:
                    out.append(("one", k, lo))  # 0:1 on an axis of size >= 1: exactly one element
                else:
                    out.append(("sym", k, SymAxis(lo, ubs)))
            else:
                points[k] = Aff.of(x)
        else:
            seen_basic = True
            n = tail_shape[k]
            if isinstance(x, slice) and x == slice(None):
                out.append(("tail", n, k))
            elif isinstance(x, (int, _np.integer)):
                if not -n <= int(x) < n:  # what numpy itself raises
                    raise IndexError("index %d is out of bounds for axis with size %d" % (int(x), n))
                tpoints[k] = int(x) % n
            else:
                raise alg.Undecided("only ':' and an in-range integer are supported on a concrete axis (got %r)" % (x,))
        ax += 1
    adv = None
    if advs:
        bshape = _np.broadcast_shapes(*[a.shape for _k, _i, a in advs])
        adv = (tuple(bshape), [(kind, k, _np.broadcast_to(a, bshape)) for kind, k, a in advs])
        out = [("adv", n) for n in bshape] + out
    return points, tpoints, out, adv


def loop_cons(loops):
    cons = []
    for _lid, name, lo, hi in loops:
        cons.append(("ge", Aff.var(name), lo))
        cons.append(("lt", Aff.var(name), hi))
    return cons


def _cons_now(C):
    return loop_cons(C.loops) + list(C.assumed)


class GArray:
    """a table being filled: axes of symbolic extent and axes of concrete length, in any order"""

    __array_ufunc__ = None

    def __init__(self, dims, tail, layout=None):
        self.dims, self.tail = [Aff.of(d) for d in dims], tuple(int(t) for t in tail)
        self.layout = list(layout) if layout is not None else [("s", k) for k in range(len(self.dims))] + [("c", k) for k in range(len(self.tail))]
        C = CTX[0]
        self.tid = C.ntab if C is not None else 0
        if C is not None:
            C.ntab += 1
            C.tables = getattr(C, "tables", []) + [list(self.dims)]

    @staticmethod
    def from_shape(shape):
        dims, tail, layout = [], [], []
        for x in shape:
            if isinstance(x, Aff):
                layout.append(("s", len(dims)))
                dims.append(x)
            else:
                layout.append(("c", len(tail)))
                tail.append(int(x))
        return GArray(dims, tail, layout)

    @property
    def shape(self):
        return tuple(self.dims[k] if kind == "s" else self.tail[k] for kind, k in self.layout)

    def transposed(self, perm):
        """np.transpose of the table: a second name for the same table with its axes in another order"""
        if perm is None:
            perm = tuple(range(len(self.layout)))[::-1]
        perm = tuple(int(x) for x in perm)
        if sorted(perm) != list(range(len(self.layout))):
            raise alg.Undecided("transpose with an invalid permutation %r" % (perm,))
        t = object.__new__(type(self))
        t.__dict__.update(self.__dict__)
        t.layout = [self.layout[a] for a in perm]
        return t

    def _view(self, idx, reading):
        C = CTX[0]
        points, tpoints, axes, adv = _index(idx, self.dims, self.tail, self.layout)
        n = len(axes)
        shape = []
        cons = _cons_now(C)
        elem = dict(points)
        sym = {}
        bounds = [(e, self.dims[a]) for a, e in points.items()]  # in-range obligations for integer indices
        for pos, axd in enumerate(axes):
            slot = n - pos
            if axd[0] == "sym":
                p = Aff.var("p%d" % slot)
                elem[axd[1]] = axd[2].lo + p
                cons.append(("ge", p, Aff.of(0)))
                for ub in axd[2].ubs:
                    cons.append(("lt", axd[2].lo + p, ub))
                sym[slot] = [axd[2]]
                shape.append(1)
            elif axd[0] == "one":
                elem[axd[1]] = axd[2]
                shape.append(1)
            elif axd[0] in ("tail", "adv"):
                shape.append(axd[1])
            else:
                shape.append(1)
        kept = [(pos, axd[2]) for pos, axd in enumerate(axes) if axd[0] == "tail"]  # (result position, concrete axis k)
        nadv = len(adv[0]) if adv else 0
        data = _np.empty(shape, dtype=object)
        events = []
        for apos in itertools.product(*[range(m) for m in (adv[0] if adv else ())]):
            el, tp = dict(elem), dict(tpoints)
            if adv:
                for kind, k, arr in adv[1]:
                    v = arr[apos]
                    if kind == "s":
                        el[k] = Aff.of(v)
                        bounds_here = [(el[k], self.dims[k])]
                    else:
                        if not isinstance(v, (int, _np.integer)):
                            raise alg.Undecided("a concrete axis is indexed with %r" % (v,))
                        if not -self.tail[k] <= int(v) < self.tail[k]:  # what numpy itself raises
                            raise IndexError("index %d is out of bounds for axis with size %d" % (int(v), self.tail[k]))
                        v = int(v) % self.tail[k]
                        tp[k] = int(v)
            if any(k not in el for k in range(len(self.dims))):
                raise alg.Undecided("an axis of the table is left without an index")
            eidx = tuple(el[k] for k in range(len(self.dims)))
            for kpos in itertools.product(*[range(self.tail[k]) for _pos, k in kept]):
                tfull = dict(tp)
                full = [0] * n
                for q, a_ in enumerate(apos):
                    full[q] = a_
                for (pos, k), kp in zip(kept, kpos):
                    tfull[k] = kp
                    full[pos] = kp
                tpos = tuple(tfull[k] for k in range(len(self.tail)))
                data[tuple(full)] = C.atom(*(eidx + (tpos,))) if reading else None
            b2 = list(bounds)
            if adv:
                b2 += [(el[k], self.dims[k]) for kind, k, _arr in adv[1] if kind == "s"]
            ev = dict(kind="read" if reading else "write", idx=eidx, cons=list(cons), bounds=b2, loops=list(C.loops), seq=None, tid=self.tid)
            # concrete coordinates this event fixes (integer / integer-array index on a concrete axis); the kept concrete axes with
            # their position from the right in the result; the position along the broadcast integer-array axes
            ev["tfix"] = dict(tp)
            ev["kept"] = {k: n - pos for pos, k in kept}
            if adv:
                ev["advslots"] = {n - q: a_ for q, a_ in enumerate(apos)}  # slot of the broadcast axis -> position along it
            events.append(ev)
        return data, sym, events

    def __getitem__(self, idx):
        C = CTX[0]
        real_atom = C.atom
        if self.tid:
            C.atom = lambda *a: C.named_atom("S%d" % self.tid, *a)
        try:
            data, sym, evs = self._view(idx, True)
        finally:
            C.atom = real_atom
        return GVal(data, sym, evs)

    # arithmetic on the whole table = arithmetic on a full slice of it (a read of every element)
    def _all(self):
        return self[(slice(None),) * len(self.layout)]

    def __mul__(self, o):
        return self._all() * o

    def __rmul__(self, o):
        return o * self._all()

    def __add__(self, o):
        return self._all() + o

    def __radd__(self, o):
        return o + self._all()

    def __sub__(self, o):
        return self._all() - o

    def __truediv__(self, o):
        return self._all() / o

    def __setitem__(self, idx, val):
        C = CTX[0]
        data, sym, evs = self._view(idx, False)
        if len(evs) != 1:
            raise alg.Undecided("assignment through integer-array indices")
        ev = evs[0]
        val = GVal.lift(val)
        C.seq += 1
        ev["seq"] = C.seq
        tslot = {sl: k for k, sl in ev["kept"].items()}  # position from the right -> concrete axis of the target
        for r in val.reads:
            r = dict(r)
            r["seq"] = C.seq
            r["wcons"] = ev["cons"]
            r["widx"] = ev["idx"]
            r["wtid"] = self.tid
            # rows: a read made through integer-array indices serves the target row at the same position of the aligned axis; a
            # concrete axis of the table read that was kept (':') and is aligned with a concrete axis of the target is read row
            # by row (rmap: axis of the table read -> axis of the target)
            r["wrows"] = dict(ev["tfix"])
            for sl, a_ in (r.get("advslots") or {}).items():
                if sl in tslot:
                    r["wrows"][tslot[sl]] = a_
            r["rmap"] = {k: tslot[sl] for k, sl in (r.get("kept") or {}).items() if sl in tslot}
            C.events.append(r)
        # aligned symbolic axes: equal length; the value may not have a symbolic axis the target lacks
        ev["len1"] = []
        for slot, axs in val.sym.items():
            if slot not in sym:
                # the target's axis there has length 1 (or is absent): numpy broadcasts only if the value's axis has exactly
                # one element - an obligation; its generic position is then 0
                if slot <= data.ndim and data.shape[data.ndim - slot] != 1:
                    raise alg.Undecided("value has a symbolic-length axis where the target has a longer concrete axis")
                ev["len1"].extend(axs)
                pvar = Aff.var("p%d" % slot)
                ev["cons"] = ev["cons"] + [("ge", pvar, Aff.of(0)), ("lt", pvar, Aff.of(1))]
        for r in C.events[-len(val.reads):] if val.reads else []:
            if r.get("seq") == C.seq and r["kind"] == "read":
                r["wcons"] = ev["cons"]
        ev["lens"] = [(sym[slot][0], ax) for slot, axs in val.sym.items() if slot in sym for ax in axs]
        vdata = val.data
        while vdata.ndim > data.ndim and vdata.shape[0] == 1:
            vdata = vdata[0]
        ev["value"] = _np.broadcast_to(vdata, data.shape)
        C.events.append(ev)


class GSpecTable(GArray):
    """result of a callee that is replaced by its contract: a table every element of which IS the callee's specification
    (atoms `name[k,j,i]`); reading it records nothing - it is not the table under construction"""

    def __init__(self, dims, tail, name):
        self.dims, self.tail = [Aff.of(d) for d in dims], tuple(int(t) for t in tail)
        self.layout = [("s", k) for k in range(len(self.dims))] + [("c", k) for k in range(len(self.tail))]
        self.tid = -1
        self.name = name

    def __getitem__(self, idx):
        C = CTX[0]
        real_atom = C.atom
        C.atom = lambda *a: C.named_atom(self.name, *a)
        try:
            data, sym, evs = self._view(idx, True)
        finally:
            C.atom = real_atom
        # nothing has to have been written, but the indices must lie inside the callee's table: kept for the harness
        # (contracts.unbounded.check_spec_reads)
        C.spec_reads = getattr(C, "spec_reads", []) + [dict(e, table=self.name) for e in evs]
        return GVal(data, sym, [])

    def __setitem__(self, idx, val):
        raise alg.Undecided("assignment into a callee's result")


class GIota:
    """np.arange(D)[None, ..., :, ..., None]: the index value along one axis"""

    __array_ufunc__ = None

    def _as_val(self):
        slot = self.ndim - self.axis
        data = _np.empty([1] * self.ndim, dtype=object)
        data[...] = (self.offset + Aff.var("p%d" % slot)).to_sym()
        return GVal(data, {slot: [SymAxis(Aff.of(0), [self.D])]}, [])

    def __mul__(self, o):
        return self._as_val() * o

    __rmul__ = __mul__

    def __add__(self, o):
        return self._as_val() + o

    __radd__ = __add__

    def __sub__(self, o):
        return self._as_val() - o

    def __rsub__(self, o):
        return o - self._as_val()

    def __init__(self, D, axis=0, ndim=1, offset=0):
        self.D, self.axis, self.ndim, self.offset = Aff.of(D), axis, ndim, Aff.of(offset)

    def reshape(self, *shape):
        """arange(lo, hi).reshape(1, ..., -1, ..., 1): the index value along one axis of symbolic length"""
        if len(shape) == 1 and isinstance(shape[0], (tuple, list)):
            shape = tuple(shape[0])
        if self.ndim != 1 or sorted(shape)[1:] != [1] * (len(shape) - 1) or shape.count(-1) != 1:
            raise alg.Undecided("reshape of an index array to %r" % (shape,))
        pos = shape.index(-1)
        slot = len(shape) - pos
        data = _np.empty([1] * len(shape), dtype=object)
        data[...] = (self.offset + Aff.var("p%d" % slot)).to_sym()
        return GVal(data, {slot: [SymAxis(Aff.of(0), [self.D])]}, [])

    def __getitem__(self, idx):
        if not isinstance(idx, tuple):
            idx = (idx,)
        if self.ndim == 1 and all(x is None or x == slice(None) for x in idx) and sum(1 for x in idx if x is not None) == 1:
            return GIota(self.D, axis=[k for k, x in enumerate(idx) if x is not None][0], ndim=len(idx), offset=self.offset)
        dims = [self.D if a == self.axis else Aff.of(1) for a in range(self.ndim)]
        points, _tp, axes, adv = _index(idx, dims, ())
        if adv:
            raise alg.Undecided("integer-array index on an index array")
        n = len(axes)
        val, sym, shape = None, {}, []
        if self.axis in points:
            val = self.offset + points[self.axis]
        for pos, axd in enumerate(axes):
            shape.append(1)
            if axd[0] == "sym":
                if axd[1] != self.axis:
                    raise alg.Undecided("symbolic slice on a length-1 axis of an index array")
                slot = n - pos
                val = self.offset + axd[2].lo + Aff.var("p%d" % slot)
                sym[slot] = [axd[2]]
            elif axd[0] == "one" and axd[1] == self.axis:
                val = self.offset + axd[2]
        data = _np.empty(shape, dtype=object)
        data[...] = val.to_sym()
        return GVal(data, sym, [])


class GNp:
    """the module's numpy: the symbolic proxy, with zeros / arange understanding symbolic extents"""

    def __init__(self, proxy, hooks=None):
        self._p = proxy
        self._hooks = dict(hooks or {})  # functions a contract replaces by their contract (e.g. max of an array of symbolic integers)

    def __getattr__(self, name):
        if name in self.__dict__.get("_hooks", {}):
            return self._hooks[name]
        f = getattr(self._p, name)
        if not callable(f) or isinstance(f, type):
            return f

        def guarded(*a, **k):
            # a numpy function this fragment has no generic-element reading for: the contract is undecided, never guessed
            if any(isinstance(x, (GVal, GArray, GIota)) for x in list(a) + list(k.values())):
                raise alg.Undecided("np.%s applied to a generic-element value: outside the fragment" % name)
            return f(*a, **k)

        return guarded

    def zeros(self, shape, *a, **k):
        if isinstance(shape, tuple) and any(isinstance(s, Aff) for s in shape):
            return GArray.from_shape(shape)
        return self._p.zeros(shape, *a, **k)

    def tensordot(self, a, b, axes=2):
        if isinstance(a, GVal):
            ax_a, ax_b = axes
            if a.data.shape[ax_a] == 1 and (a.data.ndim - ax_a) in a.sym:
                raise alg.Undecided("tensordot over a symbolic-length axis")
            if _np.ndim(b) != 2 or not isinstance(ax_a, (int, _np.integer)):
                raise alg.Undecided("tensordot form")
            # numpy: the contracted axis disappears, the free axis of b is appended at the end - the number of axes is
            # unchanged, so every symbolic axis keeps its position from the right only if it lies LEFT of the contracted axis
            if any(a.data.ndim - slot > ax_a for slot in a.sym):
                raise alg.Undecided("tensordot over an axis left of a symbolic axis")
            out = _np.tensordot(a.data, _np.asarray(b, dtype=object), (ax_a, ax_b))
            return GVal(out, a.sym, _drop_rows(a.reads, a.data.ndim, ax_a, keep_ndim=True))
        return self._p.tensordot(a, b, axes)

    def _reduce(self, name, x, axis, k, unit, op):
        if isinstance(x, GVal):
            if axis is None or k:
                raise alg.Undecided("np.%s of a value without an axis" % name)
            axis = int(axis) % x.data.ndim
            if (x.data.ndim - axis) in x.sym:
                raise alg.Undecided("np.%s over a symbolic-length axis" % name)
            if any(x.data.ndim - slot < axis for slot in x.sym):
                raise alg.Undecided("np.%s over an axis right of a symbolic axis" % name)  # its position from the right would shift
            out = _np.empty(x.data.shape[:axis] + x.data.shape[axis + 1:], dtype=object)
            for pos in itertools.product(*[range(n) for n in out.shape]):
                acc = S.lift(unit)
                for j in range(x.data.shape[axis]):
                    acc = op(acc, x.data[pos[:axis] + (j,) + pos[axis:]])
                out[pos] = acc
            return GVal(out, x.sym, _drop_rows(x.reads, x.data.ndim, axis, keep_ndim=False))
        if isinstance(x, (GArray, GIota)):
            raise alg.Undecided("np.%s of a whole table" % name)
        return getattr(self._p, name)(x, axis=axis, **k)

    def prod(self, x, axis=None, **k):
        return self._reduce("prod", x, axis, k, 1, lambda a, b: a * b)

    def sum(self, x, axis=None, **k):
        return self._reduce("sum", x, axis, k, 0, lambda a, b: a + b)

    def sqrt(self, x, *a, **k):
        if isinstance(x, GVal):
            return x.map(lambda v: v.sqrt())
        return self._p.sqrt(x, *a, **k)

    def transpose(self, x, axes=None):
        if isinstance(x, (GArray, GVal)):
            return x.transposed(axes)
        return self._p.transpose(x, axes)

    @staticmethod
    def _ndim(x):
        return len(x.layout) if isinstance(x, GArray) else x.data.ndim

    def moveaxis(self, x, source, destination):
        if isinstance(x, (GArray, GVal)):
            nd = self._ndim(x)
            src = [int(a) % nd for a in (source if isinstance(source, (tuple, list)) else [source])]
            dst = [int(a) % nd for a in (destination if isinstance(destination, (tuple, list)) else [destination])]
            if len(src) != len(dst) or len(set(src)) != len(src) or len(set(dst)) != len(dst):
                raise ValueError("`source` and `destination` arguments must have the same number of distinct elements")
            order = [a for a in range(nd) if a not in src]
            for d_, s_ in sorted(zip(dst, src)):
                order.insert(d_, s_)
            return x.transposed(order)
        return self._p.moveaxis(x, source, destination)

    def swapaxes(self, x, a, b):
        if isinstance(x, (GArray, GVal)):
            nd = self._ndim(x)
            order = list(range(nd))
            a, b = int(a) % nd, int(b) % nd
            order[a], order[b] = order[b], order[a]
            return x.transposed(order)
        return self._p.swapaxes(x, a, b)

    def arange(self, n, *a, **k):
        if isinstance(n, Aff) and not a:
            return GIota(n)
        if a and len(a) == 1 and (isinstance(n, Aff) or isinstance(a[0], Aff)):
            return GIota(Aff.of(a[0]) - Aff.of(n), offset=n)
        return self._p.arange(n, *a, **k)


# ------------------------------------------------------------------------------------------------
# verification conditions over the linear integers


def _z3env():
    import z3

    cache = {}

    def env(name):
        if name not in cache:
            cache[name] = z3.Int(name)
        return cache[name]

    return env, cache


def _cons_z3(cons, env, ren=None):
    import z3

    out = []
    for kind, a, b in cons:
        a, b = (a if ren is None else _rename(a, ren)), (b if ren is None else _rename(b, ren))
        x, y = a.z3(env), b.z3(env)
        out.append({"ge": x >= y, "lt": x < y, "gt": x > y, "le": x <= y, "eq": x == y, "ne": x != y}[kind])
    return z3.And(out) if out else z3.BoolVal(True)


def _rename(a, ren):
    return Aff({ren.get(k, k): v for k, v in a.t.items()}, a.c)


def _vars(cons, idx):
    names = set()
    for _k, a, b in cons:
        names |= set(a.t) | set(b.t)
    for a in idx:
        names |= set(a.t)
    return names


def region_formula(w, target, env, sizes, order=None):
    """exists the write's own variables (loop variables, generic positions): constraints and index == target.
    order = (loop id, loop var name of the reader, seq of the reader): restricts to earlier writes of the same loop"""
    import z3

    names = sorted(n for n in _vars(w["cons"], w["idx"]) if n not in sizes)
    ren = {n: "w_" + n for n in names}
    body = [_cons_z3(w["cons"], env, ren)]
    for a, t in zip(w["idx"], target):
        body.append(_rename(a, ren).z3(env) == t)
    if order is not None:
        lid, tname, rseq = order
        same = [l for l in w["loops"] if l[0] == lid]
        if same:
            wt = env(ren[tname]) if tname in ren else env(tname)
            if w["seq"] < rseq:
                body.append(wt <= env(tname))
            else:
                body.append(wt < env(tname))
    f = z3.And(body)
    qs = [env(ren[n]) for n in names]
    return z3.Exists(qs, f) if qs else f


LAST_SECS = [0.0]


def check_valid(premises, concl, timeout_ms=20000):
    """premises => concl valid?  ('discharged' | 'failed' | 'undecided', model text)"""
    import z3

    import time as _t

    s = z3.Solver()
    s.set("timeout", timeout_ms)
    s.add(z3.And(premises) if premises else z3.BoolVal(True))
    s.add(z3.Not(concl))
    t0 = _t.time()
    r = s.check()
    LAST_SECS[0] = _t.time() - t0
    if r == z3.unsat:
        return "discharged", None
    if r == z3.sat:
        return "failed", str(s.model())
    return "undecided", None


def run_cases(sizes, body, setup=None, max_cases=16):
    """run body(C) once per case of the comparisons it makes on extents / loop variables; returns [(C, result)]"""
    stack, out = [[]], []
    while stack:
        prefix = stack.pop()
        C = Ctx(sizes)
        C.prefix = prefix
        C.cases_enabled = True
        if setup:
            setup(C)
        CTX[0] = C
        try:
            res = body(C)
        finally:
            CTX[0] = None
        out.append((C, res))
        for i in range(len(prefix), len(C.trace)):
            stack.append(C.trace[:i] + [not C.trace[i]])
        if len(out) > max_cases:
            raise alg.Undecided("more than %d cases of extent comparisons" % max_cases)
    return out
