"""polyid back end: exact arithmetic in Q(x_i; p_j^(1/4); atoms) with a decidable equality.

A *Value* is a fraction

        n / (di * dm * prod_f F_f^{p_f})

* ``n``  : polynomial, dict {monomial -> int coefficient} over the symbols of the current context,
* ``di`` : positive int,
* ``dm`` : monomial in non-reducible symbols (positive or real symbols),
* ``df`` : dict {factor id -> positive power}; factor ids name registered non-monomial polynomials.

Exponents are stored in quarter units (x**2 is stored as 8) so that ``alpha**(3/4)`` is a monomial.

Symbol kinds
    real   unconstrained real symbol (integer exponents only)
    pos    strictly positive real symbol (quarter exponents allowed)
    prime  the positive real p**(1/4) for a prime p, reducible: t**4 -> p
    rad    square root of a registered polynomial F (side condition F > 0), reducible: r**2 -> F
    imag   the imaginary unit, reducible: I**2 -> -1
    exp    exp(u) for a Value u; products of exp atoms are merged (exp(u)exp(v) = exp(u+v))
    log    log(u), positive-argument side condition
    opq    opaque real atom (Boys values, labelled blocks, orbital values, ...), like ``real``

Monomials are packed ints (16-bit field per symbol) in *packed* contexts and sorted tuples of
``sym << 16 | exp`` in *sparse* contexts (thousands of opaque atoms, tiny monomials).

Every rewrite performed here is an identity of the field, so equal normal forms imply equal real
numbers wherever the recorded side conditions hold.  Nothing in this file knows about gbasis.
"""
from fractions import Fraction
from math import gcd

FIELD = 16
FMASK = (1 << FIELD) - 1
QU = 4  # stored exponent units per 1
EXPLIMIT = 1 << (FIELD - 1)


import time as _time


class Undecided(Exception):
    """The engine cannot decide / represent something.  Never a violation."""


# --------------------------------------------------------------------------------------------
# context


class Ctx:
    def __init__(self, sparse=False):
        self.sparse = sparse
        self.names = []
        self.kinds = []
        self.byname = {}
        self.period = {}  # sym -> period in quarter units (reducible atoms)
        self.repl = {}  # sym -> replacement poly (dict) for sym**period
        self.redmask = 0
        self.defmask = 0  # all defined atoms
        self.eagermask = 0  # eagerly rewritten ones
        self.defs = {}
        self.eager = set()
        self.folds = {}
        self.factors = []  # fid -> poly dict (content-free)
        self.fkey = {}  # frozenset(items) -> fid
        self.frad = {}  # fid -> rad sym
        self.radf = {}  # rad sym -> fid
        self.exps = []  # list of (sym, arg Value)
        self.expsyms = {}
        self.logs = []
        self.primes = {}
        self.imag = None
        self.side = []  # recorded side conditions: (kind, description)
        self.expmask = 0
        self.boys = {}  # (m, key) -> sym
        self.boysinfo = {}  # sym -> (m, arg Value)
        self.one = () if sparse else 0
        self.meta = {}

    # -- symbols
    def sym(self, name, kind="real"):
        if name in self.byname:
            s = self.byname[name]
            if self.kinds[s] != kind:
                raise ValueError("symbol %s redeclared with another kind" % name)
            return s
        s = len(self.names)
        self.names.append(name)
        self.kinds.append(kind)
        self.byname[name] = s
        return s

    def mono(self, pairs):
        """monomial from [(sym, exp_q)] with exp_q > 0"""
        if self.sparse:
            return tuple(sorted((s << FIELD) | e for s, e in pairs if e))
        m = 0
        for s, e in pairs:
            if e < 0 or e >= EXPLIMIT:
                raise Undecided("exponent out of range")
            m += e << (FIELD * s)
        return m

    def items(self, m):
        """[(sym, exp_q)] of a monomial"""
        if self.sparse:
            return [(x >> FIELD, x & FMASK) for x in m]
        out = []
        s = 0
        while m:
            e = m & FMASK
            if e:
                out.append((s, e))
            m >>= FIELD
            s += 1
        return out

    def mmul(self, a, b):
        if not self.sparse:
            return a + b
        if not a:
            return b
        if not b:
            return a
        out = []
        i = j = 0
        la, lb = len(a), len(b)
        while i < la and j < lb:
            x, y = a[i], b[j]
            sx, sy = x >> FIELD, y >> FIELD
            if sx == sy:
                out.append(x + (y & FMASK))
                i += 1
                j += 1
            elif sx < sy:
                out.append(x)
                i += 1
            else:
                out.append(y)
                j += 1
        out.extend(a[i:])
        out.extend(b[j:])
        return tuple(out)

    def set_reducible(self, s, period, repl):
        self.period[s] = period
        self.repl[s] = repl
        if not self.sparse:
            # bits of the field that are set iff exponent >= period (period is a power of two)
            assert period & (period - 1) == 0
            self.redmask |= (FMASK & ~(period - 1)) << (FIELD * s)

    def prime_sym(self, p):
        if p not in self.primes:
            s = self.sym("prime%d" % p, "prime")
            self.primes[p] = s
            self.set_reducible(s, QU, {self.one: p})
        return self.primes[p]

    def define(self, name, poly, fold=False):
        """a positive atom t with t**1 := poly (an integer-coefficient polynomial in other symbols), e.g.
        b := zeta - a.  Integer powers are rewritten, fractional powers t**(k/4) stay as monomials."""
        if name in self.byname:
            return self.byname[name]
        s = self.sym(name, "def")
        # integer powers are rewritten lazily (after additions and before comparisons), never inside
        # products, so that (2 b / pi)**(3/4) still sees the monomial b
        self.period[s] = QU
        self.repl[s] = dict(poly)
        bits = (FMASK & ~(QU - 1)) << (FIELD * s) if not self.sparse else 0
        self.defmask |= bits
        self.defs[s] = dict(poly)
        if fold:
            # name := poly is recognised when the code forms poly (a + b -> zeta) and expanded again
            # only by the equality decision
            global _WITH_DEFS
            full = p_reduce_defs(dict(poly))
            self.folds[p_key(full)] = s
        else:
            self.eager.add(s)
            self.eagermask |= bits
        self.side.append(("def-positive", s))
        return s

    def imag_sym(self):
        if self.imag is None:
            self.imag = self.sym("I", "imag")
            self.set_reducible(self.imag, 2 * QU, {self.one: -1})
        return self.imag


CTX = Ctx()


RESET_HOOKS = []


def reset(sparse=False):
    global CTX
    CTX = Ctx(sparse)
    for h in RESET_HOOKS:
        h()
    return CTX


def ctx():
    return CTX


# --------------------------------------------------------------------------------------------
# polynomials (plain dicts mono -> int)


def p_add(a, b):
    if len(a) < len(b):
        a, b = b, a
    r = dict(a)
    for m, c in b.items():
        v = r.get(m, 0) + c
        if v:
            r[m] = v
        else:
            r.pop(m, None)
    return r


def p_sub(a, b):
    r = dict(a)
    for m, c in b.items():
        v = r.get(m, 0) - c
        if v:
            r[m] = v
        else:
            r.pop(m, None)
    return r


def p_scale(a, k):
    if k == 1:
        return a
    if k == 0:
        return {}
    return {m: c * k for m, c in a.items()}


DEADLINE = [None]  # wall-clock limit for the normal-form computation of ONE comparison (set by the runner)
EXPLORE_DEADLINE = [None]  # wall-clock limit for the whole path exploration of one harness run (set by the runner)


def p_mul(a, b):
    C = CTX
    if not a or not b:
        return {}
    if DEADLINE[0] is not None and len(a) * len(b) > 64 and _time.time() > DEADLINE[0]:
        raise Undecided("bringing the two values over a common denominator exceeds the time budget of one comparison")
    if EXPLORE_DEADLINE[0] is not None and len(a) * len(b) > 64 and _time.time() > EXPLORE_DEADLINE[0]:
        raise Undecided("the exploration of the value-dependent paths of this harness exceeds its time budget")
    if len(a) < len(b):
        a, b = b, a
    r = {}
    get = r.get
    if C.sparse:
        mm = C.mmul
        for m2, c2 in b.items():
            for m1, c1 in a.items():
                k = mm(m1, m2)
                r[k] = get(k, 0) + c1 * c2
        need = bool(C.period)
    else:
        if len(b) == 1:
            ((m2, c2),) = b.items()
            if c2 == 1:
                r = {m1 + m2: c1 for m1, c1 in a.items()}
            else:
                r = {m1 + m2: c1 * c2 for m1, c1 in a.items()}
        else:
            for m2, c2 in b.items():
                for m1, c1 in a.items():
                    k = m1 + m2
                    r[k] = get(k, 0) + c1 * c2
        need = C.redmask != 0
    if need:
        r = p_reduce(r)
    else:
        if len(b) > 1:
            r = {m: c for m, c in r.items() if c}
    return r


_WITH_DEFS = [0]  # 0: atoms only, 1: + eagerly rewritten definitions, 2: + every definition


def _needs_reduce(m):
    C = CTX
    if C.sparse:
        per = C.period
        for x in m:
            s = x >> FIELD
            if s in per and (x & FMASK) >= per[s] and _def_active(C, s):
                return True
        return False
    lvl = _WITH_DEFS[0]
    if lvl == 2:
        return (m & (C.redmask | C.defmask)) != 0
    if lvl == 1:
        return (m & (C.redmask | C.eagermask)) != 0
    return (m & C.redmask) != 0


def _def_active(C, s):
    if s not in C.defs:
        return True
    lvl = _WITH_DEFS[0]
    return lvl == 2 or (lvl == 1 and s in C.eager)


def p_reduce_defs(r, level=2):
    """additionally rewrite integer powers of defined atoms (b -> zeta - a); level 1: eager ones only"""
    C = CTX
    if not C.defs or (level == 1 and not C.eager):
        return r
    if not C.sparse:
        dm = C.defmask if level == 2 else C.eagermask
        for m in r:
            if m & dm:
                break
        else:
            return r
    old = _WITH_DEFS[0]
    _WITH_DEFS[0] = level
    try:
        return p_reduce(r)
    finally:
        _WITH_DEFS[0] = old


def fold_small(n):
    """recognise a small numerator as (monomial) * (a registered definition), e.g. a P + b P -> zeta P"""
    C = CTX
    if not C.folds or not (2 <= len(n) <= 8):
        return n
    full = p_reduce_defs(n, 2)
    if len(full) < 2:
        return full
    g, mc, prim = _split_poly(full)
    s = C.folds.get(p_key(prim))
    sign = 1
    if s is None:
        s = C.folds.get(p_key({m: -c for m, c in prim.items()}))
        sign = -1
    if s is None:
        return full if len(full) < len(n) else n
    return {C.mono(list(mc) + [(s, QU)]) if not any(t == s for t, _ in mc) else C.mono([(t, e + (QU if t == s else 0)) for t, e in mc]): g * sign}


def p_reduce(r):
    """apply atom relations (t**period -> replacement), drop zero terms"""
    C = CTX
    if not C.sparse:
        lvl = _WITH_DEFS[0]
        mask = C.redmask | (C.defmask if lvl == 2 else C.eagermask if lvl == 1 else 0)
        for m in r:
            if m & mask:
                break
        else:
            if 0 in r.values():
                return {m: c for m, c in r.items() if c}
            return r
        red = [(FIELD * s, per, s) for s, per in C.period.items() if _def_active(C, s)]
        pwcache = C.meta.setdefault("pwcache", {})
        out = {}
        work = []
        for m, c in r.items():
            if not c:
                continue
            if m & mask:
                work.append((m, c))
            else:
                out[m] = out.get(m, 0) + c
        guard = 0
        while work:
            guard += 1
            if guard > 50_000_000:
                raise Undecided("reduction does not terminate")
            m, c = work.pop()
            for shift, per, s in red:
                e = (m >> shift) & FMASK
                if e >= per:
                    k = e // per
                    base = m - ((k * per) << shift)
                    rp = C.repl[s]
                    if len(rp) == 1 and 0 in rp:
                        terms = ((base, c * rp[0] ** k),)
                    else:
                        pw = pwcache.get((s, k))
                        if pw is None:
                            pw = {0: 1}
                            for _ in range(k):
                                pw = _p_mul_raw(pw, rp)
                            pwcache[(s, k)] = pw
                        terms = [(base + m2, c * c2) for m2, c2 in pw.items()]
                    break
            else:
                raise AssertionError("mask set but no reducible field")
            for m2, c2 in terms:
                if not c2:
                    continue
                if m2 & mask:
                    work.append((m2, c2))
                else:
                    v = out.get(m2, 0) + c2
                    if v:
                        out[m2] = v
                    else:
                        del out[m2]
        return out
    work = []
    out = {}
    for m, c in r.items():
        if not c:
            continue
        if _needs_reduce(m):
            work.append((m, c))
        else:
            out[m] = out.get(m, 0) + c
    guard = 0
    while work:
        guard += 1
        if guard > 10_000_000:
            raise Undecided("reduction does not terminate")
        m, c = work.pop()
        its = C.items(m)
        rest = []
        mult = None
        for s, e in its:
            per = C.period.get(s)
            if per is not None and not _def_active(C, s):
                per = None
            if mult is None and per is not None and e >= per:
                k, e2 = divmod(e, per)
                if e2:
                    rest.append((s, e2))
                mult = (s, k)
            else:
                rest.append((s, e))
        base = C.mono(rest)
        s, k = mult
        rp = C.repl[s]
        if len(rp) == 1 and C.one in rp:
            terms = {base: c * rp[C.one] ** k}
        else:
            pw = {C.one: 1}
            for _ in range(k):
                pw = _p_mul_raw(pw, rp)
            terms = {}
            for m2, c2 in pw.items():
                kk = C.mmul(base, m2)
                terms[kk] = terms.get(kk, 0) + c * c2
        for m2, c2 in terms.items():
            if not c2:
                continue
            if _needs_reduce(m2):
                work.append((m2, c2))
            else:
                v = out.get(m2, 0) + c2
                if v:
                    out[m2] = v
                else:
                    out.pop(m2, None)
    return {m: c for m, c in out.items() if c}


def _p_mul_raw(a, b):
    C = CTX
    r = {}
    mm = C.mmul
    for m1, c1 in a.items():
        for m2, c2 in b.items():
            k = mm(m1, m2)
            r[k] = r.get(k, 0) + c1 * c2
    return r


def p_content(a):
    """(int content with sign of the 'leading' term, monomial content as [(sym, e)])"""
    C = CTX
    g = 0
    for c in a.values():
        g = gcd(g, c)
        if g == 1:
            break
    mins = None
    for m in a:
        its = dict(C.items(m))
        if mins is None:
            mins = its
        else:
            for s in list(mins):
                e = its.get(s, 0)
                if e < mins[s]:
                    if e:
                        mins[s] = e
                    else:
                        del mins[s]
        if not mins:
            break
    return g, sorted((mins or {}).items())


def p_divmono(a, pairs):
    """divide every monomial by the monomial given as pairs (must divide)"""
    C = CTX
    if not pairs:
        return a
    if C.sparse:
        d = dict(pairs)
        r = {}
        for m, c in a.items():
            its = []
            for s, e in C.items(m):
                e2 = e - d.get(s, 0)
                if e2 < 0:
                    raise Undecided("monomial does not divide")
                if e2:
                    its.append((s, e2))
            r[C.mono(its)] = c
        return r
    dm = C.mono(pairs)
    return {m - dm: c for m, c in a.items()}


def p_key(a):
    return frozenset(a.items())


# --------------------------------------------------------------------------------------------
# values


class Value:
    __slots__ = ("n", "di", "dm", "df")

    def __init__(self, n, di=1, dm=None, df=None):
        self.n = n
        self.di = di
        self.dm = CTX.one if dm is None else dm
        self.df = df or {}

    # -------- constructors
    @staticmethod
    def const(q):
        if isinstance(q, int):
            return Value({CTX.one: q} if q else {})
        q = Fraction(q)
        return Value({CTX.one: q.numerator} if q else {}, q.denominator)

    @staticmethod
    def symbol(name, kind="real"):
        s = CTX.sym(name, kind)
        return Value({CTX.mono([(s, QU)]): 1})

    def is_zero(self):
        return not self.n

    def is_const(self):
        return (not self.n or (len(self.n) == 1 and CTX.one in self.n)) and self.dm == CTX.one and not self.df

    def as_fraction(self):
        if not self.is_const():
            raise Undecided("not a rational constant")
        return Fraction(self.n.get(CTX.one, 0), self.di)

    def __repr__(self):
        return "Value(%s)" % fmt(self)


def _den_lcm(x, y):
    """common denominator (di, dm-pairs dict, df) and cofactors"""
    C = CTX
    di = x.di * y.di // gcd(x.di, y.di)
    if x.dm == y.dm:
        dmx = dmy = None
        dm = x.dm
    else:
        ex, ey = dict(C.items(x.dm)), dict(C.items(y.dm))
        e = dict(ex)
        for s, v in ey.items():
            if e.get(s, 0) < v:
                e[s] = v
        dm = C.mono(list(e.items()))
        dmx = [(s, v - ex.get(s, 0)) for s, v in e.items() if v - ex.get(s, 0)]
        dmy = [(s, v - ey.get(s, 0)) for s, v in e.items() if v - ey.get(s, 0)]
    if x.df == y.df:
        df = x.df
        fx = fy = None
    else:
        df = dict(x.df)
        for f, p in y.df.items():
            if df.get(f, 0) < p:
                df[f] = p
        fx = {f: p - x.df.get(f, 0) for f, p in df.items() if p - x.df.get(f, 0)}
        fy = {f: p - y.df.get(f, 0) for f, p in df.items() if p - y.df.get(f, 0)}
    return di, dm, df, (di // x.di, dmx, fx), (di // y.di, dmy, fy)


def _apply_cof(n, cof):
    C = CTX
    k, dm, f = cof
    if dm:
        n = p_mul(n, {C.mono(dm): 1})
    if f:
        for fid, p in f.items():
            fp = C.factors[fid]
            for _ in range(p):
                n = p_mul(n, fp)
    if k != 1:
        n = p_scale(n, k)
    return n


def _s_add(x, y):
    if not x.n:
        return y
    if not y.n:
        return x
    di, dm, df, cx, cy = _den_lcm(x, y)
    n = p_add(_apply_cof(x.n, cx), _apply_cof(y.n, cy))
    if CTX.defs:
        if CTX.eager:
            n = p_reduce_defs(n, 1)
        if CTX.folds:
            n = fold_small(n)
    return _norm(Value(n, di, dm, df))


def _s_neg(x):
    return Value({m: -c for m, c in x.n.items()}, x.di, x.dm, x.df)




SMALL = 6


def _norm(v):
    """cheap normalisation: zero -> canonical zero; small numerators get content cancelled"""
    C = CTX
    if not v.n:
        return Value({})
    if len(v.n) <= SMALL or v.di > (1 << 128):
        g, mc = p_content(v.n)
        gi = gcd(g, v.di)
        n, di, dm = v.n, v.di, v.dm
        if gi > 1:
            n = {m: c // gi for m, c in n.items()}
            di //= gi
        if mc and dm != C.one:
            d = dict(C.items(dm))
            com = [(s, min(e, d[s])) for s, e in mc if s in d]
            if com:
                n = p_divmono(n, com)
                for s, e in com:
                    d[s] -= e
                dm = C.mono([(s, e) for s, e in d.items() if e])
        df = v.df
        if df and len(n) > 1:
            # cancel a numerator that is (a multiple of) a registered factor
            g2, mc2 = p_content(n)
            prim = p_divmono(n, mc2)
            if g2 > 1:
                prim = {m: c // g2 for m, c in prim.items()}
            key = p_key(prim)
            sign = 1
            fid = C.fkey.get(key)
            if fid is None:
                fid = C.fkey.get(p_key({m: -c for m, c in prim.items()}))
                sign = -1
            if fid is not None and fid in df:
                df = dict(df)
                if df[fid] == 1:
                    del df[fid]
                else:
                    df[fid] -= 1
                n = {C.mono(mc2): g2 * sign}
                return _norm(Value(n, di, dm, df))
        return Value(n, di, dm, df)
    return v


def _s_mul(x, y):
    C = CTX
    if not x.n or not y.n:
        return Value({})
    n = p_mul(x.n, y.n)
    if x.dm == C.one:
        dm = y.dm
    elif y.dm == C.one:
        dm = x.dm
    else:
        dm = C.mmul(x.dm, y.dm)
    if not x.df:
        df = y.df
    elif not y.df:
        df = x.df
    else:
        df = dict(x.df)
        for f, p in y.df.items():
            df[f] = df.get(f, 0) + p
    v = Value(n, x.di * y.di, dm, df)
    # cancel a single-term operand against the other's denominator cheaply
    if (len(x.n) == 1 or len(y.n) == 1) and len(n) > SMALL and (dm != C.one or v.di != 1):
        small = x if len(x.n) == 1 else y
        ((m, c),) = small.n.items()
        d = dict(C.items(dm))
        com = [(s, min(e, d[s])) for s, e in C.items(m) if s in d]
        g = gcd(c, v.di)
        if com or g > 1:
            if com:
                n = p_divmono(n, com)
                for s, e in com:
                    d[s] -= e
                dm = C.mono([(s, e) for s, e in d.items() if e])
            if g > 1:
                n = {mm: cc // g for mm, cc in n.items()}
            v = Value(n, v.di // g, dm, df)
        return v
    return _norm(v)


def register_factor(poly):
    """register a content-free polynomial as a denominator factor; returns (fid, sign)"""
    C = CTX
    key = p_key(poly)
    fid = C.fkey.get(key)
    if fid is not None:
        return fid, 1
    neg = {m: -c for m, c in poly.items()}
    fid = C.fkey.get(p_key(neg))
    if fid is not None:
        return fid, -1
    fid = len(C.factors)
    C.factors.append(poly)
    C.fkey[key] = fid
    return fid, 1


def _split_poly(n):
    """n = g * mono(mc) * prim"""
    g, mc = p_content(n)
    prim = p_divmono(n, mc)
    if g > 1:
        prim = {m: c // g for m, c in prim.items()}
    return g, mc, prim


def _inv_monomial(c, its):
    """1/(c*mono) as Value; reducible atoms are rationalised"""
    C = CTX
    num = Value({C.one: 1})
    dm = []
    for s, e in its:
        per = C.period.get(s)
        if per is None or s in C.defs:
            dm.append((s, e))
        else:
            # 1/t^e with e = k*per + r :  t^(per-r) / repl^(k+1)   (r > 0),   1 / repl^k   (r = 0)
            k, r = divmod(e, per)
            rp = C.repl[s]
            if r:
                num = v_mul(num, Value({C.mono([(s, per - r)]): 1}))
                k += 1
            if k:
                num = v_mul(num, v_pow_int(v_inv(Value(dict(rp))), k))
    sgn = 1 if c > 0 else -1
    res = Value({C.one: sgn}, abs(c), C.mono(dm))
    return v_mul(num, res)


def _s_inv(x):
    C = CTX
    if not x.n:
        raise ZeroDivisionError("division by an expression that is identically zero")
    g, mc, prim = _split_poly(x.n)
    # numerator of the result: di * dm * prod F^p
    res = Value({x.dm: x.di})
    for f, p in x.df.items():
        fp = Value(dict(C.factors[f]))
        for _ in range(p):
            res = v_mul(res, fp)
    if len(prim) == 1:
        ((m0, c0),) = prim.items()
        assert m0 == C.one
        inv = _inv_monomial(g * c0, mc)
    else:
        fid, sign = register_factor(prim)
        C.side.append(("nonzero", fid))
        inv = v_mul(_inv_monomial(g * sign, mc), Value({C.one: 1}, 1, C.one, {fid: 1}))
    return v_mul(res, inv)




def _factor_int(n):
    out = {}
    p = 2
    while p * p <= n:
        while n % p == 0:
            out[p] = out.get(p, 0) + 1
            n //= p
        p += 1 if p == 2 else 2
        if p > 100000:
            raise Undecided("integer too large to factor")
    if n > 1:
        out[n] = out.get(n, 0) + 1
    return out


def _int_pow_frac(c, e):
    """c**e for positive int c and Fraction e (denominator 1, 2 or 4) as Value"""
    C = CTX
    eq = e * QU
    if eq.denominator != 1:
        raise Undecided("exponent %s not a multiple of 1/4" % e)
    eq = int(eq)
    res = Value({C.one: 1})
    for p, k in _factor_int(c).items():
        tot = k * eq  # quarter units, may be negative
        whole, rem = divmod(tot, QU)
        if whole >= 0:
            res = v_mul(res, Value({C.one: p**whole}))
        else:
            res = v_mul(res, Value({C.one: 1}, p ** (-whole)))
        if rem:
            res = v_mul(res, Value({C.mono([(C.prime_sym(p), rem)]): 1}))
    return res


def rad_of_factor(fid):
    C = CTX
    if fid not in C.frad:
        s = C.sym("rad%d" % fid, "rad")
        C.frad[fid] = s
        C.radf[s] = fid
        C.set_reducible(s, 2 * QU, dict(C.factors[fid]))
        C.side.append(("positive", fid))
    return C.frad[fid]


def _mono_pow_frac(its, e):
    """(monomial)**e for Fraction e>0, as Value (positive base required for fractional e)"""
    C = CTX
    out = []
    res = Value({C.one: 1})
    for s, ex in its:
        kind = C.kinds[s]
        ne = ex * e
        if ne.denominator != 1:
            raise Undecided("exponent of %s not representable" % C.names[s])
        ne = int(ne)
        if kind in ("pos",):
            out.append((s, ne))
        elif kind == "def":
            out.append((s, ne))
        elif kind == "prime":
            res = v_mul(res, v_pow_int(Value({C.mono([(s, 1)]): 1}), ne)) if ne else res
        elif kind in ("real", "opq"):
            if e.denominator != 1:
                # even root of an even power = |x|^k : needs a sign decision
                raise Undecided("fractional power of the unsigned symbol %s" % C.names[s])
            out.append((s, ne))
        elif kind == "exp":
            if e.denominator != 1:
                u = C.exparg(s)
                res = v_mul(res, v_exp(v_mul(u, Value.const(Fraction(ex, QU) * e))))
            else:
                out.append((s, ne))
        elif kind == "rad":
            if e.denominator != 1:
                raise Undecided("fractional power of a radical")
            res = v_mul(res, v_pow_int(Value({C.mono([(s, QU)]): 1}), ne // QU))
        else:
            if e.denominator != 1:
                raise Undecided("fractional power of atom %s" % C.names[s])
            res = v_mul(res, v_pow_int(Value({C.mono([(s, QU)]): 1}), ne // QU))
    return v_mul(res, Value({C.mono(out): 1}))


def v_pow_int(x, k):
    if k < 0:
        return v_pow_int(v_inv(x), -k)
    res = Value.const(1)
    base = x
    while k:
        if k & 1:
            res = v_mul(res, base)
        k >>= 1
        if k:
            base = v_mul(base, base)
    return res


def _s_pow(x, e):
    """x**e, e a Fraction; for non-integer e the base must be positive (side condition)."""
    C = CTX
    e = Fraction(e)
    if e.denominator == 1:
        return v_pow_int(x, int(e))
    if not x.n:
        if e > 0:
            return Value({})
        raise ZeroDivisionError("0 ** negative")
    if e < 0:
        return v_pow(v_inv(x), -e)
    if e > 1:
        w = e.numerator // e.denominator
        return v_mul(v_pow_int(x, w), v_pow(x, e - w))
    # 0 < e < 1 : numerator and each denominator part separately
    g, mc, prim = _split_poly(x.n)
    if len(prim) == 1:
        ((m0, c0),) = prim.items()
        c = g * c0
        if c < 0:
            raise Undecided("fractional power of a negative quantity")
        res = v_mul(_int_pow_frac(c, e), _mono_pow_frac(mc, e))
    else:
        if e != Fraction(1, 2):
            raise Undecided("only square roots of polynomials are supported (got %s)" % e)
        fid, sign = register_factor(prim)
        if sign < 0:
            # radicand registered with the opposite sign: register the negated one separately
            fid = len(C.factors)
            C.factors.append(prim)
            C.fkey[p_key(prim)] = fid
        r = rad_of_factor(fid)
        res = v_mul(_int_pow_frac(g, e), _mono_pow_frac(mc, e))
        res = v_mul(res, Value({C.mono([(r, QU)]): 1}))
    # denominators
    den = v_mul(_int_pow_frac(x.di, e), _mono_pow_frac(C.items(x.dm), e))
    for f, p in x.df.items():
        pe = p * e
        if pe.denominator == 1:
            den = v_mul(den, v_pow_int(Value(dict(C.factors[f])), int(pe)))
        elif pe.denominator == 2:
            r = rad_of_factor(f)
            den = v_mul(den, v_pow_int(Value({C.mono([(r, QU)]): 1}), pe.numerator))
        else:
            raise Undecided("root of order %d of a polynomial" % pe.denominator)
    return v_div(res, den)


def _s_eq(x, y):
    if CTX.defs and (not x.n or not y.n):
        return not p_reduce_defs(x.n) and not p_reduce_defs(y.n)
    if not x.n or not y.n:
        return (not x.n) and (not y.n)
    di, dm, df, cx, cy = _den_lcm(x, y)
    a = _apply_cof(x.n, cx)
    b = _apply_cof(y.n, cy)
    if CTX.defs:
        if a == b:
            return True
        d = p_reduce_defs(p_sub(a, b))
        return not d
    if len(a) != len(b):
        return False
    return a == b


def v_diff_numerator(x, y):
    di, dm, df, cx, cy = _den_lcm(x, y)
    return p_sub(_apply_cof(x.n, cx), _apply_cof(y.n, cy))


# -------- transcendental atoms


def _exparg(self, s):
    return self.expsyms[s]


Ctx.exparg = _exparg


def _s_exp(u):
    """exp(u): find-or-create the atom by decided equality of arguments"""
    C = CTX
    if not u.n:
        return Value.const(1)
    for s, arg in C.exps:
        if v_eq(arg, u):
            return Value({C.mono([(s, QU)]): 1})
    # exp(-v) known?  then exp(u) = 1/exp(v): keep it as a separate atom pair handled in merge
    s = C.sym("exp%d" % len(C.exps), "exp")
    C.exps.append((s, u))
    C.expsyms[s] = u
    C.expmask = 1
    if not C.sparse:
        C.expfields = getattr(C, "expfields", 0) | (FMASK << (FIELD * s))
        if not hasattr(C, "expsingle"):
            C.expsingle = set()
        C.expsingle.add(QU << (FIELD * s))
    return Value({C.mono([(s, QU)]): 1})


def _s_log(u):
    C = CTX
    if u.is_const() and u.as_fraction() == 1:
        return Value({})
    for s, arg in C.logs:
        if v_eq(arg, u):
            return Value({C.mono([(s, QU)]): 1})
    s = C.sym("log%d" % len(C.logs), "opq")
    C.logs.append((s, u))
    C.side.append(("logarg-positive", len(C.logs) - 1))
    return Value({C.mono([(s, QU)]): 1})


def _s_merge_exps(v):
    """rewrite every monomial so that it contains at most one exp atom to the first power"""
    C = CTX
    if not C.exps:
        return v
    expset = set(C.expsyms)
    n = {}
    changed = False
    if not C.sparse:
        ef, single = C.expfields, C.expsingle
        for m in v.n:
            x = m & ef
            if x and x not in single:
                break
        else:
            return v
    if not C.sparse:
        cache = C.meta.setdefault("expmerge_packed", {})
        for m, c in v.n.items():
            x = m & ef
            if not x or x in single:
                n[m] = n.get(m, 0) + c
                continue
            hit = cache.get(x)
            if hit is None:
                arg = Value({})
                for s, e in C.items(x):
                    arg = v_add(arg, v_mul(C.expsyms[s], Value.const(Fraction(e, QU))))
                at = v_exp(arg)
                hit = cache[x] = next(iter(at.n.items())) if at.n else (0, 1)
                ef, single = C.expfields, C.expsingle
            k = (m - x) + hit[0]
            n[k] = n.get(k, 0) + c * hit[1]
        return Value({m: c for m, c in n.items() if c}, v.di, v.dm, v.df)
    for m, c in v.n.items():
        its = C.items(m)
        es = [(s, e) for s, e in its if s in expset]
        if len(es) <= 1 and all(e == QU for s, e in es):
            n[m] = n.get(m, 0) + c
            continue
        changed = True
        ck = tuple(sorted(es))
        cache = C.meta.setdefault("expmerge", {})
        at = cache.get(ck)
        if at is None:
            arg = Value({})
            for s, e in es:
                arg = v_add(arg, v_mul(C.expsyms[s], Value.const(Fraction(e, QU))))
            at = cache[ck] = v_exp(arg)
        rest = C.mono([(s, e) for s, e in its if s not in expset])
        ((m2, c2),) = at.n.items() if at.n else ((C.one, 1),)
        k = C.mmul(rest, m2)
        n[k] = n.get(k, 0) + c * c2
    if not changed:
        return v
    return Value({m: c for m, c in n.items() if c}, v.di, v.dm, v.df)


def _s_equal(x, y):
    """the equality decision used for obligations (merges exp atoms first)"""
    if CTX.exps:
        # exp atoms may sit in denominators only via dm (they are non-reducible): move them up
        x = _s_merge_exps(_exp_den_up(x))
        y = _s_merge_exps(_exp_den_up(y))
    return _s_eq(x, y)


def _exp_den_up(v):
    C = CTX
    if not C.sparse and not (v.dm & getattr(C, "expfields", 0)):
        return v
    its = C.items(v.dm)
    es = [(s, e) for s, e in its if s in C.expsyms]
    if not es:
        return v
    mult = Value.const(1)
    for s, e in es:
        mult = v_mul(mult, v_exp(v_mul(C.expsyms[s], Value.const(Fraction(-e, QU)))))
    dm = C.mono([(s, e) for s, e in its if s not in C.expsyms])
    return v_mul(Value(v.n, v.di, dm, v.df), mult)



# --------------------------------------------------------------------------------------------
# sums of fractions with incomparable denominators are kept unexpanded (VSum); this is only a
# representation choice: every operation below is the field operation, and the equality decision
# falls back to the common-denominator form whenever the term-wise comparison is not conclusive.


class VSum:
    __slots__ = ("terms",)

    def __init__(self, terms):
        self.terms = terms

    def is_zero(self):
        return collapse(self).is_zero()

    def is_const(self):
        return collapse(self).is_const()

    def as_fraction(self):
        return collapse(self).as_fraction()

    def __repr__(self):
        return "VSum(%s)" % fmt(self)


def _sig(v):
    return frozenset(v.df)


def _terms(x):
    if type(x) is Value:
        return {_sig(x): x} if x.n else {}
    return x.terms


def _mk(terms):
    terms = {s: t for s, t in terms.items() if t.n}
    if not terms:
        return Value({})
    if len(terms) == 1:
        return next(iter(terms.values()))
    return VSum(terms)


def _absorb(terms, s, t):
    """add term t (signature s) to the dict, merging with a comparable signature if there is one"""
    if not t.n:
        return
    if s in terms:
        r = _s_add(terms[s], t)
        if r.n:
            terms[s] = r
        else:
            del terms[s]
        return
    for u in terms:
        if s < u or u < s:
            r = _s_add(terms.pop(u), t)
            if r.n:
                _absorb(terms, _sig(r), r)
            return
    terms[s] = t


def collapse(x):
    if type(x) is Value:
        return x
    acc = Value({})
    for t in x.terms.values():
        acc = _s_add(acc, t)
    return acc


def v_add(x, y):
    if type(x) is Value and type(y) is Value:
        if not x.n:
            return y
        if not y.n:
            return x
        kx, ky = x.df.keys(), y.df.keys()
        if kx == ky or kx <= ky or ky <= kx:
            return _s_add(x, y)
        return VSum({_sig(x): x, _sig(y): y})
    terms = dict(_terms(x))
    for s, t in _terms(y).items():
        _absorb(terms, s, t)
    return _mk(terms)


def v_neg(x):
    if type(x) is Value:
        return _s_neg(x)
    return VSum({s: _s_neg(t) for s, t in x.terms.items()})


def v_sub(x, y):
    return v_add(x, v_neg(y))


def v_mul(x, y):
    if type(x) is Value and type(y) is Value:
        return _s_mul(x, y)
    terms = {}
    for t1 in _terms(x).values():
        for t2 in _terms(y).values():
            r = _s_mul(t1, t2)
            _absorb(terms, _sig(r), r)
    return _mk(terms)


def v_inv(x):
    return _s_inv(collapse(x))


def v_div(x, y):
    return v_mul(x, v_inv(y))


def v_pow(x, e):
    e = Fraction(e)
    if type(x) is VSum:
        if e.denominator == 1 and 0 <= e <= 4:
            return v_pow_int(x, int(e))
        x = collapse(x)
    if e == Fraction(1, 2) or e == Fraction(-1, 2):
        try:
            return _s_pow(x, e)
        except Undecided:
            r = generic_sqrt(x)
            return r if e > 0 else v_inv(r)
    return _s_pow(x, e)


def generic_sqrt(x):
    """sqrt of a value the structural rules cannot take apart: an atom r with r >= 0, r*r = x (used
    for comparisons; products r*r are not rewritten)"""
    C = CTX
    if not hasattr(C, "gsq"):
        C.gsq = []
    for s, arg in C.gsq:
        if v_equal(arg, x):
            return Value({C.mono([(s, QU)]): 1})
    s = C.sym("gsqrt%d" % len(C.gsq), "gsq")
    C.gsq.append((s, x))
    C.side.append(("radicand-nonnegative", len(C.gsq) - 1))
    return Value({C.mono([(s, QU)]): 1})


def v_exp(x):
    return _s_exp(collapse(x))


def v_log(x):
    return _s_log(collapse(x))


def v_eq(x, y):
    return v_equal(x, y)


def v_equal(x, y):
    if type(x) is Value and type(y) is Value:
        return _s_equal(x, y)
    d = v_sub(x, y)
    if type(d) is Value:
        return _s_equal(d, Value({}))
    # term-wise: each group of the difference must vanish
    if all(_s_equal(t, Value({})) for t in d.terms.values()):
        return True
    return _s_equal(collapse(d), Value({}))


def merge_exps(x):
    if type(x) is Value:
        return _s_merge_exps(x)
    return _mk_from_list([_s_merge_exps(t) for t in x.terms.values()])


def _mk_from_list(vals):
    terms = {}
    for v in vals:
        _absorb(terms, _sig(v), v)
    return _mk(terms)


def map_terms(x, fn):
    """apply a linear map on simple values term by term"""
    if type(x) is Value:
        return fn(x)
    return _mk_from_list([fn(t) for t in x.terms.values()])


def evalv(v, env, F):
    if type(v) is Value:
        return _s_evalv(v, env, F)
    tot = None
    for t in v.terms.values():
        r = _s_evalv(t, env, F)
        tot = r if tot is None else tot + r
    return tot


def fmt(v, limit=12):
    if type(v) is Value:
        return _s_fmt(v, limit)
    return " + ".join("{%s}" % _s_fmt(t, max(2, limit // len(v.terms))) for t in v.terms.values())


def simple_parts(v):
    return [v] if type(v) is Value else list(v.terms.values())

# --------------------------------------------------------------------------------------------
# numeric evaluation of canonical values (for counterexample search / cross checks)


def _s_evalv(v, env, F):
    """evaluate Value at env {sym -> number} in field F (module-like: sqrt, exp, log, num)"""
    C = CTX
    cache = {}

    def symval(s):
        if s in cache:
            return cache[s]
        kind = C.kinds[s]
        if s in env:
            r = env[s]
        elif kind == "prime":
            p = [k for k, t in C.primes.items() if t == s][0]
            r = F.num(p)
        elif kind == "rad":
            r = F.sqrt(evalp(C.factors[C.radf[s]]))
        elif kind == "gsq":
            r = F.sqrt(evalv([a for t, a in C.gsq if t == s][0], env, F))
        elif kind == "def":
            r = evalp(C.defs[s])
        elif kind == "imag":
            r = F.imag()
        elif kind == "exp":
            r = F.exp(evalv(C.expsyms[s], env, F))
        elif s in C.boysinfo:
            m, arg = C.boysinfo[s]
            r = F.boys(m, evalv(arg, env, F))
        else:
            lg = [a for t, a in C.logs if t == s]
            if lg:
                r = F.log(evalv(lg[0], env, F))
            else:
                raise KeyError("no value for symbol %s" % C.names[s])
        cache[s] = r
        return r

    def evalm(m):
        r = F.num(1)
        for s, e in C.items(m):
            b = symval(s)
            if e % QU == 0:
                r = r * b ** (e // QU)
            else:
                r = r * F.pow(b, Fraction(e, QU))
        return r

    def evalp(p):
        r = F.num(0)
        for m, c in p.items():
            r = r + evalm(m) * c
        return r

    num = evalp(v.n)
    den = F.num(v.di) * evalm(v.dm)
    for f, p in v.df.items():
        den = den * evalp(C.factors[f]) ** p
    return num / den


# --------------------------------------------------------------------------------------------
# printing (diagnostics only)


def fmt_mono(m):
    C = CTX
    parts = []
    for s, e in C.items(m):
        q = Fraction(e, QU)
        parts.append(C.names[s] if q == 1 else "%s^%s" % (C.names[s], q))
    return "*".join(parts) or "1"


def _s_fmt(v, limit=12):
    C = CTX
    terms = []
    for i, (m, c) in enumerate(sorted(v.n.items(), key=lambda t: t[0])):
        if i >= limit:
            terms.append("... (%d terms)" % len(v.n))
            break
        terms.append("%+d*%s" % (c, fmt_mono(m)))
    s = " ".join(terms) or "0"
    den = []
    if v.di != 1:
        den.append(str(v.di))
    if v.dm != C.one:
        den.append(fmt_mono(v.dm))
    for f, p in v.df.items():
        den.append("F%d^%d" % (f, p))
    if den:
        s = "(%s)/(%s)" % (s, "*".join(den))
    return s
