"""Contract runner: executes harnesses (contracts on real gbasis functions) shape by shape,
collects named obligations, searches counterexamples for failed ones, replays them natively,
writes evidence, prints VIOLATION / KNOWN-FINDING lines and sets the exit code.

Exit codes: 0 held | 1 violation | 2 undecided | 3 checker crash / no obligations.
"""
import hashlib
import importlib
import json
import os
import random
import subprocess
import sys
import time
import traceback
from concurrent.futures import ProcessPoolExecutor, as_completed
from fractions import Fraction

VERIF = os.path.dirname(os.path.dirname(os.path.abspath(__file__)))


# --------------------------------------------------------------------------------------------
# modes


class ResultShape(Exception):
    """the code under contract returned an array of another shape than its contract states (raised by Mode.shaped;
    reported as the failed obligation <name>/result-shape, not as a crash of the harness that cannot go on)"""

    def __init__(self, name, got, want):
        Exception.__init__(self, "%s: shape %s, contract says %s" % (name, got, want))
        self.name, self.got, self.want = name, got, want


class EnoughRefuted(Exception):
    """raised inside a whole-harness exploration once 16 obligations of the task have been refuted"""


class CalleeNotCalled(ResultShape):
    """the code under contract returned without calling a callee whose contract the harness substitutes (so the
    result cannot have come from it): failed obligation <name>/callee-called"""

    def __init__(self, name, key):
        Exception.__init__(self, "%s: callee record %r missing" % (name, key))
        self.name, self.got, self.want = name, "no call of the callee (%s)" % key, "a call"


class Mode:
    """what a harness sees: symbol factory, number field, obligation sink"""

    def shaped(self, name, arr, shape):
        got = tuple(getattr(arr, "shape", ()))
        if got != tuple(shape):
            raise ResultShape(name, got, tuple(shape))
        return arr

    def __init__(self, kind, env=None, tol=1e-9, dps=50):
        from . import fields

        self.kind = kind
        self.symbolic = kind == "sym"
        self.env = env or {}
        self.results = []
        self.tol = tol
        self.used = {}
        self.wanted = None  # numeric mode: only evaluate this obligation (None = all)
        if kind == "sym":
            self.F = fields.SymField()
            self.SF = self.F
        elif kind == "float":
            self.F = fields.FloatField(self.env)
            self.SF = fields.MpField({}, dps)
        elif kind == "mp":
            self.F = fields.MpField(self.env, dps)
            self.SF = self.F
        else:
            raise ValueError(kind)

    def to_spec(self, x):
        """convert an input handed to the real code into the field the spec is evaluated in
        (identity symbolically; exact double -> mpmath conversion in native replays)"""
        import numpy as np

        if self.kind != "float":
            return x
        mp = self.SF.mp
        if isinstance(x, np.ndarray):
            out = np.empty(x.shape, dtype=object)
            for idx in np.ndindex(*x.shape):
                v = x[idx]
                out[idx] = mp.mpc(v.real, v.imag) if isinstance(v, complex) else mp.mpf(float(v))
            return out
        if isinstance(x, complex):
            return mp.mpc(x.real, x.imag)
        return mp.mpf(float(x))

    # ---- symbols
    def _sym(self, name, kind):
        self.used[name] = kind
        if self.symbolic:
            from . import sym as S

            return S.Sym.symbol(name, kind)
        if name not in self.env:
            rng = getattr(self, "sample_rng", None)
            if rng is not None:
                # bounded stand-in: draw the input from the stated domain (seeded)
                dom = getattr(self, "sample_domain", {})
                lo, hi = dom.get("pos", (0.05, 20.0))
                for pref, rngs in dom.get("by_prefix", {}).items():
                    if name.startswith(pref):
                        lo, hi = rngs
                if kind == "pos":
                    import math

                    v = math.exp(rng.uniform(math.log(lo), math.log(hi)))
                    if v < 1e-3:
                        self.env[name] = Fraction("%.6g" % v)  # six significant digits, exactly (tolerances such as 1e-14)
                    else:
                        self.env[name] = Fraction(round(v, 6)).limit_denominator(10**6) or Fraction(1, 1000)
                else:
                    span = dom.get("real", 1.5)
                    z = rng.random()
                    # coincident / on-axis values are part of the domain
                    v = 0.0 if z < dom.get("zero_prob", 0.08) else rng.uniform(-span, span)
                    for pref, rngs in dom.get("real_by_prefix", {}).items():
                        if name.startswith(pref):  # stress profiles: e.g. a common centre tens of bohr from the origin
                            v = rng.uniform(rngs[0], rngs[1]) * (rng.choice((-1, 1)) if len(rngs) > 2 and rngs[2] else 1)
                    self.env[name] = Fraction(round(v, 6)).limit_denominator(10**6)
            else:
                # symbols that do not occur in the failed obligation: deterministic filler values
                h = int(hashlib.sha1(name.encode()).hexdigest()[:8], 16)
                self.env[name] = Fraction(30 + h % 271, 100) if kind == "pos" else Fraction(h % 401 - 200, 100)
            self.F.env = self.env
        return self.F.real(name)

    def real(self, name):
        return self._sym(name, "real")

    def pos(self, name):
        return self._sym(name, "pos")

    def opq(self, name):
        return self._sym(name, "opq")

    def folded(self, name, expr):
        """positive quantity name := expr that the code forms itself (zeta := a + b): recognised on
        sight and kept as one atom (also in denominators and under roots), expanded again by the equality
        decision; precondition expr > 0"""
        if self.symbolic:
            from . import alg, sym as S

            v = alg.collapse(S.expand(S.lift(expr)))
            if v.di != 1 or v.dm != alg.ctx().one or v.df:
                raise alg.Undecided("definition must be a polynomial")
            s = alg.ctx().define(name, v.n, fold=True)
            return S.Sym.of_value(alg.Value({alg.ctx().mono([(s, alg.QU)]): 1}))
        return expr

    def defined(self, name, expr):
        """positive quantity name := expr (polynomial in other symbols), kept atomic under fractional
        powers (e.g. b := zeta - a for the WLOG parametrisations); precondition expr > 0"""
        if self.symbolic:
            from . import alg, sym as S

            v = alg.collapse(S.expand(S.lift(expr)))
            if v.di != 1 or v.dm != alg.ctx().one or v.df:
                raise alg.Undecided("definition must be a polynomial")
            s = alg.ctx().define(name, v.n)
            return S.Sym.of_value(alg.Value({alg.ctx().mono([(s, alg.QU)]): 1}))
        return expr

    def vec(self, prefix, shape, kind="real"):
        import numpy as np

        if isinstance(shape, int):
            shape = (shape,)
        arr = np.empty(shape, dtype=object)
        for idx in np.ndindex(*shape):
            arr[idx] = self._sym(prefix + "".join("_%d" % i for i in idx), kind)
        return self.array(arr)

    def array(self, data):
        import numpy as np

        if self.symbolic:
            from . import sym as S

            return S.SymArray(data)
        if self.kind == "float":
            a = np.array(data)
            if a.dtype == object:
                try:
                    return a.astype(float)
                except TypeError:
                    return a.astype(complex)
            return a.astype(float) if a.dtype.kind in "iu" else a
        return np.array(data, dtype=object)

    def scalar(self, x):
        """a Python-float-typed scalar parameter (alpha, thresholds, ...)"""
        if self.symbolic:
            from . import sym as S

            return S.SymFloat(S.lift(x))
        return float(x) if self.kind == "float" else x

    # ---- obligations
    def _rec(self, name, status, backend, secs=0.0, **kw):
        r = {"name": name, "status": status, "backend": backend, "secs": round(secs, 4)}
        r.update(kw)
        self.results.append(r)
        if status == "failed":
            self._nfailed = getattr(self, "_nfailed", 0) + 1
        return r

    def eq(self, name, got, exp, scale=None):
        """obligation: got == exp as real (complex) numbers for all inputs (scale: natural magnitude against
        which a float sample is judged, e.g. the Schwarz scale of an ERI element; irrelevant symbolically)"""
        t = time.time()
        if self.symbolic:
            from . import alg, sym as S

            if isinstance(got, (S.SymNaN, S.SymInf)):
                ex = getattr(self, "explorer", None)
                model = None
                if ex is not None and ex.pc:
                    from . import paths as P

                    r, model, dt = P.check_sat(ex.fixed + P.pc_formulas(ex.pc))
                    if r == "unsat":
                        return self._rec(name, "discharged", "z3", dt, detail="path infeasible", vacuous=True)
                return self._rec(name, "failed", "run", time.time() - t, cex={"env": model or {}},
                                 detail="the code produces %s (a division by an exact zero) where a finite value is specified" % type(got).__name__)
            g, e = S.lift(got), S.lift(exp)
            vg, ve = S.expand(g), S.expand(e)
            # a LARGE pair of values that differ costs far more to normalise than an equal pair (nothing cancels): look at one
            # concrete point first - a point of the domain (of the current path) at which they differ refutes the equality,
            # with that point as the failing input; agreement there proves nothing and the exact comparison follows
            if (_vsize(vg) + _vsize(ve) > 600 or _nparts(vg) + _nparts(ve) >= 8) and not (getattr(self, "explorer", None) is not None and self.explorer.pc):
                quick = self._quick_refute(name, vg, ve, t)
                if quick is not None:
                    return quick
            alg.DEADLINE[0] = time.time() + (180 if not getattr(self, "_slow", False) else 3)  # generous: passing comparisons take seconds
            try:
                ok = alg.v_equal(vg, ve)
            except alg.Undecided as e_:
                # the exact comparison is too expensive: a concrete point may still refute it; otherwise the obligation is undecided
                # (and the later comparisons of this task get a short budget: the task as a whole stays bounded)
                self._slow = True
                alg.DEADLINE[0] = None
                quick = self._quick_refute(name, vg, ve, t)
                return quick if quick is not None else self._rec(name, "undecided", "polyid", time.time() - t, detail=str(e_))
            finally:
                alg.DEADLINE[0] = None
            if ok:
                xc = self._crosscheck(g, e)
                if xc is not None:
                    return self._rec(name, "engine-disagreement", "polyid", time.time() - t, detail=xc)
                return self._rec(name, "discharged", "polyid", time.time() - t)
            ex = getattr(self, "explorer", None)
            if ex is not None and ex.pc:
                from . import paths as P

                if getattr(self, "_nfailed", 0) >= 16:
                    raise EnoughRefuted()  # 16 fully analysed refutations in this task: the rest adds nothing to the verdict
                fs = ex.fixed + P.pc_formulas(ex.pc)
                cache = ex.__dict__.setdefault("_cx", {})  # per path: feasibility and one concrete point, shared by its obligations
                if cache.get("n") != len(ex.pc):
                    cache.clear()
                    cache["n"] = len(ex.pc)
                    cache["sat"] = P.check_sat(fs)
                r, model, dt = cache["sat"]
                if r == "unsat":
                    return self._rec(name, "discharged", "z3", dt, detail="path infeasible", vacuous=True)
                from . import subst

                if "subst" not in cache:
                    cache["subst"] = subst.solve_path(fs)
                diff, nsub = subst.reduce_under(alg.v_sub(vg, ve), fs, cache["subst"])
                if nsub and alg.v_equal(diff, alg.Value({})):
                    return self._rec(name, "discharged", "polyid+path-equations", time.time() - t, detail="%d equation(s) of the path substituted" % nsub)
                if r != "sat":
                    return self._rec(name, "undecided", "z3", dt, detail="values differ on a path whose feasibility is unknown")
                concl = ("atom", alg.v_sub(vg, ve), "==")
                real = None
                if cache.get("env") is not None and P.check_point(fs, concl, cache["env"]):
                    real = cache["env"]
                    P.LAST_DIFF[0] = 0.0
                elif getattr(self, "_ncx", 0) < 8:
                    self._ncx = getattr(self, "_ncx", 0) + 1  # budget of concrete-point searches per task
                    real = P.numeric_counterexample(fs, concl, model)
                    if real is not None:
                        cache["env"] = real
                if real is None and sum(len(part.n) for part in alg.simple_parts(diff)) <= 120:
                    # small residue: let the solver try to derive the equality from the path condition
                    try:
                        st, _m, dt2 = P.check_implies(fs, ("atom", diff, "=="))
                    except alg.Undecided:
                        st = "undecided"  # e.g. a complex-valued residue: outside the real-arithmetic solver
                    if st == "discharged":
                        return self._rec(name, "discharged", "z3", time.time() - t, detail="path condition implies the equality")
                return self._rec(name, "failed", "z3+polyid", time.time() - t, cex={"env": real if real is not None else model, "diff": P.LAST_DIFF[0] if real is not None else 0.0},
                                 got=alg.fmt(vg, 8), exp=alg.fmt(ve, 8), detail="differs on a feasible path (a value-dependent branch in the code)")
            cex = find_counterexample(vg, ve, self.used)
            return self._rec(name, "failed", "polyid", time.time() - t, cex=cex,
                             got=alg.fmt(vg, 8), exp=alg.fmt(ve, 8))
        if self.wanted is not None and _nopath(name) != _nopath(self.wanted):
            return None
        if scale is not None:
            return self._rec(name, "value", self.kind, 0.0, got=_num(got), exp=_num(exp), scale=_num(scale))
        return self._rec(name, "value", self.kind, 0.0, got=_num(got), exp=_num(exp))

    def _quick_refute(self, name, vg, ve, t):
        from . import alg

        ex = getattr(self, "explorer", None)
        if ex is not None and ex.pc:
            from . import paths as P

            if getattr(self, "_nfailed", 0) >= 16:
                raise EnoughRefuted()
            fs = ex.fixed + P.pc_formulas(ex.pc)
            cache = ex.__dict__.setdefault("_cx", {})
            if cache.get("n") != len(ex.pc):
                cache.clear()
                cache["n"] = len(ex.pc)
                cache["sat"] = P.check_sat(fs)
            r, model, dt = cache["sat"]
            if r != "sat":
                return None
            concl = ("atom", alg.v_sub(vg, ve), "==")
            real = None
            if cache.get("env") is not None:
                if P.check_point(fs, concl, cache["env"]):
                    real = cache["env"]
                    P.LAST_DIFF[0] = 0.0
            elif getattr(self, "_ncx", 0) < 8:
                self._ncx = getattr(self, "_ncx", 0) + 1
                real = P.numeric_counterexample(fs, concl, model)
                if real is not None:
                    cache["env"] = real
            if real is None:
                return None
            return self._rec(name, "failed", "numeric-point+z3", time.time() - t, cex={"env": real, "diff": P.LAST_DIFF[0]},
                             detail="differs at a concrete point of a feasible path (a value-dependent branch in the code)")
        # ONE point, and only a CLEAR difference counts (1e-8 of the scale at 40 digits: far beyond any rounding of the evaluation)
        cex = find_counterexample(vg, ve, self.used, tries=0.25, threshold=Fraction(1, 10**8))
        if cex is None:
            return None
        return self._rec(name, "failed", "numeric-point", time.time() - t, cex=cex, got=cex.get("got"), exp=cex.get("exp"),
                         detail="the two values differ at this point of the domain (40-digit evaluation)")

    def _crosscheck(self, g, e):
        """independent second opinion on a sample of the equalities polyid accepts: both expression DAGs are
        evaluated numerically at 40 digits at a random rational point WITHOUT going through the normal form"""
        self._xc_count = getattr(self, "_xc_count", 0) + 1
        n = self._xc_count
        if not (n <= 40 or n % 50 == 0) or getattr(self, "_xc_off", False):
            return None
        from . import alg, fields, sym as S

        C = alg.ctx()
        try:
            if getattr(self, "_xc_env", None) is None or self._xc_nsym != len(C.names):
                rng = random.Random(12345)
                F = fields.MpField({}, 40)
                env = {}
                for i, name in enumerate(C.names):
                    k = C.kinds[i]
                    if name == "pi":
                        env[name] = F.pi
                    elif k in ("real", "opq") and i not in C.boysinfo and not any(t == i for t, _ in C.logs):
                        env[name] = F.num(Fraction(rng.randint(-250, 250), 97))
                    elif k == "pos":
                        env[name] = F.num(Fraction(rng.randint(20, 300), 89))
                if any(alg.evalv(alg.Value(pl), {C.byname[k]: v for k, v in env.items() if k in C.byname}, F) <= 0 for pl in C.defs.values()):
                    # defined atoms must be positive: bias the draw
                    for i, name in enumerate(C.names):
                        if C.kinds[i] == "pos":
                            env[name] = F.num(Fraction(rng.randint(20, 300), 89)) * (5 if name in ("zeta", "eta", "sigma") else 1)
                self._xc_env, self._xc_F, self._xc_nsym, self._xc_memo = env, F, len(C.names), {}
            a = S.evalnode(g, self._xc_env, self._xc_F, self._xc_memo)
            b = S.evalnode(e, self._xc_env, self._xc_F, self._xc_memo)
            self._xc_done = getattr(self, "_xc_done", 0) + 1
            scale = max(abs(a), abs(b), 1)
            if abs(a - b) > scale * self._xc_F.num(Fraction(1, 10**25)):
                return "normal forms equal but the expressions evaluate to %s and %s at a random point" % (_num(a), _num(b))
        except (ZeroDivisionError, ValueError, KeyError, TypeError, alg.Undecided, OverflowError):
            return None
        return None

    def true(self, name, cond, detail="", backend="run"):
        if self.wanted is not None and _nopath(name) != _nopath(self.wanted) and not self.symbolic:
            return None
        return self._rec(name, "discharged" if cond else "failed", backend, 0.0, detail=detail,
                         cex={"env": {k: str(v) for k, v in self.env.items()}} if not cond else None)

    # ---- value-dependent control flow
    def paths(self, fn, assumptions=(), catch=(Exception,)):
        """all feasible paths of fn() (symbolic) / the single concrete path (numeric)"""
        if self.symbolic:
            from . import paths as P

            ps, stats = P.explore(fn, assumptions, catch=catch)
            self.path_stats = stats
            return ps
        from . import paths as P

        outcome, exc = None, None
        try:
            outcome = fn()
        except catch as e:
            exc = e
        return [P.Path([], outcome, exc, [])]

    def atom(self, x, rel, y=0):
        if self.symbolic:
            from . import paths as P

            return P.atom(x, rel, y)
        import operator

        ops = {"<": operator.lt, "<=": operator.le, ">": operator.gt, ">=": operator.ge, "==": operator.eq, "!=": operator.ne}
        return ("bool", bool(ops[rel](x, y)))

    def f_and(self, *fs):
        return ("and", list(fs))

    def f_or(self, *fs):
        return ("or", list(fs))

    def f_not(self, f):
        return ("not", f)

    def _evalf(self, f):
        k = f[0]
        if k == "bool":
            return f[1]
        if k == "and":
            return all(self._evalf(g) for g in f[1])
        if k == "or":
            return any(self._evalf(g) for g in f[1])
        if k == "not":
            return not self._evalf(f[1])
        if k == "true":
            return True
        raise ValueError(k)

    def implies(self, name, path, concl, detail=""):
        """obligation: (preconditions and path condition) => concl, by z3"""
        if self.symbolic:
            from . import paths as P

            st, model, dt = P.check_implies(path.formulas(), concl)
            if st == "discharged":
                return self._rec(name, "discharged", "z3", dt, detail=detail)
            if st == "failed":
                real = P.numeric_counterexample(path.formulas(), concl, model)
                return self._rec(name, "failed", "z3", dt, detail=detail, cex={"env": real if real is not None else model,
                                 "solver_model": model, "validated_with_true_functions": real is not None})
            return self._rec(name, "undecided", "z3", dt, detail="solver unknown: " + detail)
        if self.wanted is not None and _nopath(name) != _nopath(self.wanted):
            return None
        ok = self._evalf(concl)
        return self._rec(name, "discharged" if ok else "failed", "run", 0.0, detail=detail)

    def eq_under(self, name, path, cond, got, exp):
        """obligation: on the part of the path where `cond` holds, got == exp.  The region is checked
        non-empty by z3; on a non-empty region the two sides must be identical as functions (polyid);
        the z3 model of the region is the candidate counterexample otherwise."""
        t = time.time()
        if self.symbolic:
            from . import alg, paths as P, sym as S

            r, model, dt = P.check_sat(path.formulas() + [cond])
            if r == "unsat":
                return self._rec(name, "discharged", "z3", dt, detail="case cannot occur on this path", vacuous=True)
            if isinstance(got, S.SymNaN):
                if r == "sat":
                    return self._rec(name, "failed", "z3", dt, cex={"env": model}, detail="the code produces nan (0/0) on a feasible case")
                return self._rec(name, "undecided", "z3", dt, detail="nan on a case of unknown feasibility")
            if isinstance(got, S.SymInf) or isinstance(exp, S.SymInf):
                return self._rec(name, "undecided", "-", dt, detail="infinite value on a feasible case")
            vg, ve = S.expand(S.lift(got)), S.expand(S.lift(exp))
            if alg.v_equal(vg, ve):
                return self._rec(name, "discharged", "z3+polyid", time.time() - t)
            if r != "sat":
                return self._rec(name, "undecided", "z3", dt, detail="region feasibility unknown and values differ")
            return self._rec(name, "failed", "z3+polyid", time.time() - t, cex={"env": model}, got=alg.fmt(vg, 8), exp=alg.fmt(ve, 8))
        if self.wanted is not None and _nopath(name) != _nopath(self.wanted):
            return None
        if not self._evalf(cond):
            return self._rec(name, "discharged", "run", 0.0, detail="case does not apply at this input")
        return self._rec(name, "value", self.kind, 0.0, got=_num(got), exp=_num(exp))

    def feasible(self, name, path):
        """non-vacuity: the path condition (with the preconditions) is satisfiable"""
        if not self.symbolic:
            return None
        from . import paths as P

        r, model, dt = P.check_sat(path.formulas())
        if r == "sat":
            return self._rec(name, "discharged", "z3", dt, detail="path condition satisfiable")
        if r == "unsat":
            return self._rec(name, "failed", "z3", dt, detail="explored path has an unsatisfiable condition")
        return self._rec(name, "undecided", "z3", dt, detail="solver unknown on path feasibility")

    def undecided(self, name, why):
        return self._rec(name, "undecided", "-", 0.0, detail=why)

    def raises(self, name, fn, excs, detail=""):
        try:
            fn()
        except excs as e:
            return self._rec(name, "discharged", "run", 0.0, detail="raised %s" % type(e).__name__)
        except Exception as e:  # noqa
            from .alg import Undecided

            if isinstance(e, Undecided):
                raise
            return self._rec(name, "failed", "run", 0.0, cex={"env": {k: str(v) for k, v in self.env.items()}},
                             detail="raised %s instead of %s: %s" % (type(e).__name__, excs, e))
        return self._rec(name, "failed", "run", 0.0, detail="did not raise " + detail,
                         cex={"env": {k: str(v) for k, v in self.env.items()}})


def _parse_num(x):
    import mpmath

    if isinstance(x, list):
        return mpmath.mpc(mpmath.mpf(x[0]), mpmath.mpf(x[1]))
    x = str(x).strip("()")
    try:
        return mpmath.mpf(x)
    except Exception:
        c = complex(x)
        return mpmath.mpc(c.real, c.imag)


def _nopath(name):
    import re

    return re.sub(r"^path\d+/", "", re.sub(r"/path\d+/", "/path*/", name))


def _num(x):
    if hasattr(x, "_mpf_"):
        import mpmath

        return mpmath.nstr(x, 30)
    if hasattr(x, "_mpc_"):
        import mpmath

        return [mpmath.nstr(x.real, 30), mpmath.nstr(x.imag, 30)]
    try:
        import numpy as np

        if isinstance(x, np.generic):
            x = x.item()
    except ImportError:
        pass
    if isinstance(x, complex):
        return [repr(x.real), repr(x.imag)]
    return repr(x)


# --------------------------------------------------------------------------------------------
# counterexample search (symbolic side)


def random_env(used, rng, spread=2.0):
    env = {}
    for name, kind in used.items():
        if kind == "pos":
            env[name] = Fraction(rng.randint(30, 300), 100)
        else:
            env[name] = Fraction(rng.randint(-200, 200), 100) * Fraction(spread) / 2
    return env


def _vsize(v):
    from . import alg

    try:
        return sum(len(part.n) for part in alg.simple_parts(v))
    except Exception:
        return 0


def _nparts(v):
    """number of terms with their own denominator: bringing many of them over a common denominator is what blows up"""
    from . import alg

    try:
        return len(list(alg.simple_parts(v)))
    except Exception:
        return 0


def find_counterexample(vg, ve, used, tries=12, seed=None, threshold=Fraction(1, 10**20)):
    """a rational point where the two canonical values differ (evaluated at 40 digits)"""
    from . import alg, fields

    C = alg.ctx()
    rng = random.Random(seed if seed is not None else int(os.environ.get("VERIF_SEED", "0")) + 7919)
    occurring = _symbols_in(vg) | _symbols_in(ve)
    allsyms = {}
    for s in occurring:
        name = C.names[s]
        if C.kinds[s] in ("real", "pos", "opq") and name != "pi" and s not in C.boysinfo \
                and not any(t == s for t, _ in C.logs):
            allsyms[name] = C.kinds[s]
    for _ in range(max(1, int(tries * 4))):
        env = random_env(allsyms, rng)
        F = fields.MpField({}, 40)
        if getattr(C, "defs", None):
            se = {C.byname[k]: v for k, v in env.items() if k in C.byname}
            try:
                if any(alg.evalv(alg.Value(pl), se, fields.FracOnly()) <= 0 for pl in C.defs.values()):
                    continue
            except Exception:
                continue
        symenv = {}
        for name, v in env.items():
            if name in C.byname:
                symenv[C.byname[name]] = F.num(v)
        if "pi" in C.byname:
            symenv[C.byname["pi"]] = F.pi
        try:
            a = alg.evalv(vg, symenv, F)
            b = alg.evalv(ve, symenv, F)
        except (ZeroDivisionError, KeyError, ValueError) as e:
            continue
        scale = max(abs(a), abs(b), 1)
        if abs(a - b) > F.num(threshold) * scale:
            return {"env": {k: str(v) for k, v in env.items()}, "got": _num(a), "exp": _num(b)}
    return None


def _symbols_in(v, depth=0):
    """symbols a canonical value depends on (through atoms too)"""
    from . import alg

    C = alg.ctx()
    out = set()
    if type(v) is not alg.Value:
        for t in alg.simple_parts(v):
            out |= _symbols_in(t, depth)
        return out
    polys = [v.n] + [C.factors[f] for f in v.df]
    for p in polys:
        for m in p:
            for s, _ in C.items(m):
                out.add(s)
    for s, _ in C.items(v.dm):
        out.add(s)
    if depth < 6:
        for s in list(out):
            if s in C.radf:
                out |= _symbols_in(alg.Value(C.factors[C.radf[s]]), depth + 1)
            elif s in C.expsyms:
                out |= _symbols_in(C.expsyms[s], depth + 1)
            elif s in C.boysinfo:
                out |= _symbols_in(C.boysinfo[s][1], depth + 1)
            elif C.kinds[s] == "def":
                out |= _symbols_in(alg.Value(C.defs[s]), depth + 1)
            elif C.kinds[s] == "gsq":
                out |= _symbols_in([a for t, a in C.gsq if t == s][0], depth + 1)
            else:
                for t, a in C.logs:
                    if t == s:
                        out |= _symbols_in(a, depth + 1)
    return out


# --------------------------------------------------------------------------------------------
# task execution (worker side)


def _tier_of(ref, tier):
    """'module:Class@quick' pins a premise harness to its quick family in every tier"""
    return ref.split("@", 1)[1] if "@" in ref else tier


def load_harness(ref):
    ref = ref.split("@", 1)[0]
    modname, cls = ref.split(":")
    mod = importlib.import_module(modname)
    return getattr(mod, cls)()


def run_task(ref, shape, kind="sym", env=None, wanted=None, sample_seed=None):
    """run one harness on one shape; returns a JSON-able record"""
    t0 = time.time()
    rec = {"harness": ref, "shape": shape, "results": [], "status": "ok", "secs": 0.0, "kind": kind}
    if sample_seed is not None:
        rec["sample_seed"] = sample_seed
    try:
        h = load_harness(ref)
        from . import alg, bind, sym as S
        from .alg import Undecided

        if kind in ("sym", "mp"):
            bind.install_symbolic()
            alg.reset(sparse=getattr(h, "sparse", False))
            bind.fresh_proxy()
            S.set_decider(None)
        else:
            bind.uninstall()
            bind.ensure_path()
        M = Mode(kind, env=_parse_env(env), tol=getattr(h, "tol", 1e-9))
        M.wanted = wanted
        if sample_seed is not None:
            M.sample_rng = random.Random(sample_seed)
            M.sample_domain = h.fp_domain_for(shape) if hasattr(h, "fp_domain_for") else getattr(h, "fp_domain", {})
        M.mods = bind.modules()
        if kind == "mp":
            bind.PROXY.pi = M.F.pi
        if kind == "sym":
            del S.DIVLOG[:]
        try:
            h.run(shape, M)
        except Undecided as ue:
            if kind != "sym" or "outside a path exploration" not in str(ue):
                raise
            # the code under contract branches on real values where the harness did not expect it:
            # explore every path of the whole harness run; obligations become 'path condition => clause'
            _explore_harness(h, shape, M)
        if kind == "sym" and not getattr(h, "allow_division_by_inputs", False):
            _check_divisors(M)
        rec["results"] = M.results
        if sample_seed is not None:
            rec["env"] = {k: str(v) for k, v in M.env.items()}
        rec["nsym"] = len(alg.ctx().names) if kind == "sym" else 0
        rec["crosschecked"] = getattr(M, "_xc_done", 0)
        if kind == "sym":
            rec["side"] = sorted({k for k, _ in alg.ctx().side})
    except Exception as e:  # noqa
        from .alg import Undecided

        rec["error"] = "%s: %s" % (type(e).__name__, e)
        rec["trace"] = traceback.format_exc()[-3000:]
        try:
            rec["results"] = M.results
        except Exception:
            pass
        if isinstance(e, Undecided):
            rec["status"] = "undecided"
        elif isinstance(e, ResultShape):
            env = {}
            try:
                env = {k: str(v) for k, v in M.env.items()}
            except Exception:
                pass
            if isinstance(e, CalleeNotCalled):
                rec["results"] = list(rec.get("results") or []) + [{
                    "name": e.name + "/callee-called", "status": "failed", "backend": "run", "secs": 0.0,
                    "detail": "the code under contract returned without calling the callee its contract is stated over: %s" % e.got, "cex": {"env": env}}]
            else:
                rec["results"] = list(rec.get("results") or []) + [{
                    "name": e.name + "/result-shape", "status": "failed", "backend": "run", "secs": 0.0,
                    "detail": "the code under contract returned shape %s where its contract states %s" % (e.got, e.want), "cex": {"env": env}}]
        elif _raised_in_repo(e):
            # the function under contract raised on an input satisfying its precondition: that is a failed
            # obligation of the contract ("returns normally"), not a checker crash
            env = {}
            try:
                env = {k: str(v) for k, v in M.env.items()}
            except Exception:
                pass
            rec["results"] = list(rec.get("results") or []) + [{
                "name": "returns-normally", "status": "failed", "backend": "run", "secs": 0.0,
                "detail": "the code under contract raised %s: %s\n%s" % (type(e).__name__, e, rec["trace"][-1200:]),
                "cex": {"env": env}}]
        else:
            rec["status"] = "crash"
    rec["secs"] = round(time.time() - t0, 3)
    return rec


def _explore_harness(h, shape, M):
    from . import alg, paths as P, sym as S

    stack = [[]]
    allres = []
    npaths = 0
    t_start = time.time()
    while stack:
        prefix = stack.pop()
        ex = P.Explorer()
        ex.prefix = prefix
        S.set_decider(ex.decide)
        M.results = []
        M.explorer = ex
        enough = False
        timed_out = None
        alg.EXPLORE_DEADLINE[0] = t_start + 420.0
        try:
            h.run(shape, M)
        except EnoughRefuted:
            enough = True
        except alg.Undecided as ue_:
            if "exceeds its time budget" not in str(ue_):
                raise
            timed_out = str(ue_)  # what was established so far is kept; the rest is undecided, never held
        finally:
            alg.EXPLORE_DEADLINE[0] = None
            S.set_decider(None)
            M.explorer = None
        for r in M.results:
            r["name"] = "path%d/%s" % (npaths, r["name"])
        allres += M.results
        for i in range(len(prefix), len(ex.trace)):
            stack.append(ex.trace[:i] + [not ex.trace[i]])
        npaths += 1
        if timed_out:
            allres.append({"name": "paths/all-explored", "status": "undecided", "backend": "z3", "secs": 0.0,
                           "detail": "%d paths explored (the last one not to its end): %s" % (npaths, timed_out)})
            break
        if enough or (stack and sum(1 for r in allres if r["status"] == "failed") >= 16):
            break  # the contract is already refuted on the explored paths; further paths add nothing to the verdict
        if stack and (npaths >= 1024 or (npaths >= 8 and time.time() - t_start > 45.0) or time.time() - t_start > 240.0):
            # budget exhausted: what the explored paths established (including failed obligations) is kept, the rest
            # is reported as undecided - never as held
            allres.append({"name": "paths/all-explored", "status": "undecided", "backend": "z3", "secs": 0.0,
                           "detail": "%d paths explored, %d alternatives left unexplored (budget: 45 s once 8 paths are done, 240 s in any case, at most 1024 paths)" % (npaths, len(stack))})
            break
    M.results = allres


def _check_divisors(M):
    """well-definedness: every divisor (and base of a negative power) formed while the real code ran is
    non-zero on the whole precondition domain"""
    from . import alg, paths as P, sym as S

    seen = []
    bad = []
    unknown = 0
    for node in S.DIVLOG:
        try:
            v = S.expand(node)
        except (alg.Undecided, ZeroDivisionError):
            continue
        if v.is_const() or S.syntactic_sign(v) is not None:
            continue
        if any(alg.v_equal(v, w) for w in seen):
            continue
        seen.append(v)
        try:
            r, model, dt = P.check_sat([("atom", v, "==")])
        except alg.Undecided:
            r, model = "unknown", None
        if r == "sat":
            bad.append((v, model))
        elif r != "unsat":
            unknown += 1
    del S.DIVLOG[:]
    if bad:
        v, model = bad[0]
        M._rec("well-defined/no-division-by-a-quantity-that-can-vanish", "failed", "z3", 0.0, cex={"env": model},
               detail="the code divides by (or takes a negative power of) %s, which is zero at an admissible input; %d such divisors" % (alg.fmt(v, 6), len(bad)))
    elif unknown:
        M._rec("well-defined/no-division-by-a-quantity-that-can-vanish", "undecided", "z3", 0.0, detail="%d divisors undecided" % unknown)
    else:
        M._rec("well-defined/no-division-by-a-quantity-that-can-vanish", "discharged", "polyid+z3", 0.0, detail="%d non-trivial divisors" % len(seen))


def _raised_in_repo(e):
    from . import bind

    root = os.path.realpath(bind.REPO)
    tb = e.__traceback__
    last = None
    while tb is not None:
        last = tb
        tb = tb.tb_next
    if last is None:
        return False
    fn = os.path.realpath(last.tb_frame.f_code.co_filename)
    if fn.startswith(root + os.sep):
        return True
    # raised inside numpy / the proxy while executing a gbasis frame (e.g. an IndexError from indexing)
    tb = e.__traceback__
    frames = []
    while tb is not None:
        frames.append(os.path.realpath(tb.tb_frame.f_code.co_filename))
        tb = tb.tb_next
    inrepo = [i for i, f in enumerate(frames) if f.startswith(root + os.sep)]
    if not inrepo:
        return False
    after = frames[inrepo[-1] + 1:]
    verif = os.path.realpath(VERIF)
    # frames after the last gbasis frame: numpy internals are fine, a harness / stub frame means the harness raised
    return not any(f.startswith(os.path.join(verif, "contracts")) for f in after) and isinstance(e, (IndexError, ValueError, TypeError, KeyError, ZeroDivisionError, AttributeError, UnboundLocalError, NameError, AssertionError)) and not any("engine/alg.py" in f or "engine/paths.py" in f for f in after)


def _parse_env(env):
    if not env:
        return {}
    out = {}
    for k, v in env.items():
        out[k] = Fraction(v) if isinstance(v, str) else v
    return out


def _float_env(env):
    return {k: float(Fraction(v)) if isinstance(v, str) else float(v) for k, v in env.items()}


# --------------------------------------------------------------------------------------------
# native replay (fresh plain interpreter, no proxy)


def native_replay(ref, shape, env, obligation, prop, tol_rel, sample_seed=None):
    """call the unmodified code in a fresh interpreter at the counterexample; returns verdict dict"""
    payload = {"harness": ref, "shape": shape, "env": env, "obligation": obligation, "sample_seed": sample_seed}
    cmd = [sys.executable, "-m", "engine.replay_native"]
    p = subprocess.run(cmd, input=json.dumps(payload), capture_output=True, text=True, cwd=VERIF,
                       timeout=600)
    if p.returncode != 0:
        return {"verdict": "replay-crashed", "stderr": p.stderr[-2000:]}
    try:
        out = json.loads(p.stdout.strip().splitlines()[-1])
    except Exception:
        return {"verdict": "replay-crashed", "stderr": (p.stdout + p.stderr)[-2000:]}
    return out


# --------------------------------------------------------------------------------------------
# property-level driver


class Check:
    """one property: a list of (harness ref, tier filter) and bookkeeping"""

    def __init__(self, prop, level, harnesses, assumptions, functions, note=""):
        self.prop = prop
        self.level = level
        self.harnesses = harnesses
        self.assumptions = assumptions
        self.functions = functions
        self.note = note


def load_known_findings():
    p = os.path.join(VERIF, "known_findings.json")
    if not os.path.exists(p):
        return {"findings": [], "fixed": []}
    return json.load(open(p))


def match_known(prop, name, known):
    import fnmatch

    for f in known.get("findings", []):
        if f["property"] == prop and any(fnmatch.fnmatch(name, pat) for pat in f["obligations"]):
            return f
    return None


def run_check(check, tier, seed, jobs=None, extra_bounded=None):
    t0 = time.time()
    jobs = jobs or min(16, os.cpu_count() or 1)
    tasks = []
    for ref in check.harnesses:
        h = load_harness(ref)
        if getattr(h, "fp_only", False):
            continue
        for shape in h.shapes(_tier_of(ref, tier)):
            tasks.append((ref, shape))
    records = []
    fptasks = []
    nsamp = int(os.environ.get("VERIF_FP_SAMPLES", "3" if tier == "quick" else "40"))
    for ref in check.harnesses:
        h = load_harness(ref)
        if getattr(h, "fp", False):
            shapes = h.fp_shapes(_tier_of(ref, tier)) if hasattr(h, "fp_shapes") else h.shapes(_tier_of(ref, tier))
            hq, ht = getattr(h, "fp_nsamp", (None, None))
            n_here = nsamp if hq is None or "VERIF_FP_SAMPLES" in os.environ else (hq if tier == "quick" else ht)
            for si, shape in enumerate(shapes):
                for k in range(n_here):
                    fptasks.append((ref, shape, seed * 1000003 + si * 1009 + k))
    calls = [(ref, shape, "sym", None, None, None) for ref, shape in tasks]
    calls += [(ref, shape, "float", None, None, ss) for ref, shape, ss in fptasks]
    records = _run_pool(calls, jobs)
    return summarize(check, tier, seed, records, time.time() - t0, extra_bounded)


def _run_pool(calls, jobs):
    """run the tasks in a process pool; a worker that dies (out of memory) breaks the whole pool, so the
    unfinished tasks are retried in a fresh, smaller pool; a task that is in flight at two pool failures is
    reported undecided (resource limit), never as a violation"""
    from concurrent.futures.process import BrokenProcessPool

    records = []
    pending = list(enumerate(calls))
    strikes = {}
    round_ = 0
    while pending:
        workers = max(1, jobs // (2 ** round_))
        nxt = []
        with ProcessPoolExecutor(max_workers=workers) as ex:
            futs = {ex.submit(run_task, *c): (i, c) for i, c in pending}
            for fut in as_completed(futs):
                i, c = futs[fut]
                try:
                    records.append(fut.result())
                except BrokenProcessPool:
                    strikes[i] = strikes.get(i, 0) + 1
                    if strikes[i] >= 3 or round_ >= 3:
                        records.append({"harness": c[0], "shape": c[1], "results": [], "status": "undecided", "kind": c[2],
                                        "error": "worker process died repeatedly (resource limit)", "secs": 0})
                    else:
                        nxt.append((i, c))
                except Exception as e:  # noqa
                    records.append({"harness": c[0], "shape": c[1], "results": [], "status": "crash", "kind": c[2],
                                    "error": "worker failed: %r" % (e,), "secs": 0})
        pending = nxt
        round_ += 1
    return records


def summarize(check, tier, seed, records, wall, extra_bounded=None):
    prop = check.prop
    known = load_known_findings()
    obligations = discharged = 0
    by_backend = {}
    solver_secs = 0.0
    failed, undecided, crashes = [], [], []
    names = []
    samples = []
    bounded_total = bounded_ok = 0
    for rec in records:
        try:
            hobj = load_harness(rec["harness"])
            is_bounded = bool(getattr(hobj, "bounded", False))
        except Exception:
            hobj, is_bounded = None, False
        if rec.get("kind") == "float" and "sample_seed" in rec:
            # bounded stand-in for the rounding gap: unmodified float64 code vs the specification at 50 digits
            tol = getattr(hobj, "fp_tol", 1e-8)
            if rec["status"] == "crash":
                crashes.append(rec)
            for r in rec["results"]:
                full = "%s/fp/%s@%s#%s" % (prop, r["name"], _shape_tag(rec["shape"]), rec["sample_seed"])
                bounded_total += 1
                bad = False
                if r["status"] == "value":
                    g, e = _parse_num(r["got"]), _parse_num(r["exp"])
                    scale = max(abs(e), 1.0) if not getattr(hobj, "fp_relative", False) else max(abs(e), abs(g), 1e-300)
                    if r.get("scale") is not None:
                        scale = abs(_parse_num(r["scale"]))
                    err = abs(g - e)
                    bad = not (err <= tol * scale + 1e-280)  # 1e-280: doubles underflow below that
                    if bad:
                        r = dict(r, status="failed", detail="float64 result %s vs %s (|err| %.3g > %g * %.3g)" % (r["got"], r["exp"], float(err), tol, float(scale)),
                                 cex={"env": rec.get("env", {})})
                elif r["status"] == "failed":
                    bad = True
                    r = dict(r, cex={"env": rec.get("env", {})})
                if bad:
                    failed.append((full, rec, r))
                else:
                    bounded_ok += 1
            continue
        if rec["status"] == "crash":
            crashes.append(rec)
        elif rec["status"] == "undecided":
            undecided.append({"name": "%s@%s" % (rec["harness"], json.dumps(rec["shape"], sort_keys=True)),
                              "detail": rec.get("error")})
        for r in rec["results"]:
            full = "%s/%s@%s" % (prop, r["name"], _shape_tag(rec["shape"]))
            names.append(full)
            if is_bounded:
                # run-time checks on sampled inputs: reported separately, never counted as proved
                bounded_total += 1
                if r["status"] == "discharged":
                    bounded_ok += 1
                elif r["status"] == "failed":
                    failed.append((full, rec, r))
                else:
                    undecided.append({"name": full, "detail": r.get("detail")})
                continue
            obligations += 1
            solver_secs += r.get("secs", 0)
            if r["status"] == "discharged":
                discharged += 1
                by_backend[r["backend"]] = by_backend.get(r["backend"], 0) + 1
                if len(samples) < 6 and obligations % 97 == 1:
                    samples.append(full)
            elif r["status"] == "failed":
                failed.append((full, rec, r))
            elif r["status"] == "engine-disagreement":
                crashes.append({"harness": rec["harness"], "shape": rec["shape"], "error": "ENGINE DISAGREEMENT on %s: %s" % (full, r.get("detail")), "trace": ""})
            else:
                undecided.append({"name": full, "detail": r.get("detail")})
    violations = []
    known_hits = []
    repdir = os.environ.get("VERIF_REPLAY_DIR", os.path.join(VERIF, "replays"))
    os.makedirs(repdir, exist_ok=True)
    seen_known = set()
    nreplay = 0
    # replay budget: spread over distinct shapes / obligation families first
    order, seen_fam = [], set()
    for item in failed:
        fam = (item[1]["harness"], _shape_tag(item[1]["shape"]), item[2]["name"].split("[")[0].rsplit("/", 1)[-1])
        order.append((fam in seen_fam, -float((item[2].get("cex") or {}).get("diff") or 0.0), len(order), item))
        seen_fam.add(fam)
    failed = [it for _, _, _, it in sorted(order, key=lambda t: (t[0], t[3][1].get("kind") == "float", t[1], t[2]))]
    for full, rec, r in failed:
        kf = match_known(prop, full, known)
        verdict = None
        if r.get("cex") and r["cex"].get("env") is not None and rec.get("harness") and nreplay < 8:
            nreplay += 1
            verdict = native_replay(rec["harness"], rec["shape"], r["cex"]["env"], r["name"], prop, 1e-8, rec.get("sample_seed"))
        elif rec.get("kind") == "float" and r.get("cex") is not None and r["cex"].get("env") is not None:
            # a failed float sample IS a failing input of the unmodified float64 code (evaluated in-process, recorded in
            # the replay file); only the separate-interpreter re-run was skipped because its budget of 8 was used up
            verdict = {"verdict": "native-disagrees-with-spec", "in_process": True,
                       "detail": "obligation evaluated on the unmodified float64 code at the recorded input; re-run with the rerun command"}
        if kf is not None:
            if kf["id"] not in seen_known:
                seen_known.add(kf["id"])
                known_hits.append(kf)
            continue
        tag = hashlib.sha1(full.encode()).hexdigest()[:10]
        path = os.path.join(repdir, "%s-%s.json" % (prop, tag))
        confirmed = bool(verdict and verdict.get("verdict") == "native-disagrees-with-spec")
        doc = {"property": prop, "obligation": full, "name": r["name"], "sample_seed": rec.get("sample_seed"), "harness": rec["harness"], "shape": rec["shape"],
               "verifier_output": {k: r.get(k) for k in ("got", "exp", "detail", "backend", "cex")},
               "native_replay": verdict,
               "rerun": "cd /verif && ./vcheck --replay %s" % path}
        with open(path, "w") as fh:
            json.dump(doc, fh, indent=1, default=str)
        violations.append((full, path, confirmed))
    # ---- output
    status = 0
    for kf in known_hits:
        print("KNOWN-FINDING: property=%s %s" % (prop, kf["what"]))
    violations.sort(key=lambda v: not v[2])
    for full, path, confirmed in violations[:12]:
        suffix = "" if confirmed else " no-failing-input-found"
        print("VIOLATION property=%s replay=%s obligation=%s%s" % (prop, path, full, suffix))
        # interface form: line must end with the words when no input is found
    base = {}
    try:
        base = json.load(open(os.path.join(VERIF, "baseline_obligations.json"))).get(prop, {}).get(tier, {})
    except Exception:
        pass
    vanished = None
    if base and not getattr(check, "filtered", False):
        nsym = sum(1 for r in records if r.get("kind") != "float")
        if nsym < base.get("tasks", 0):
            vanished = "only %d of %d symbolic tasks ran" % (nsym, base["tasks"])
        elif not failed and obligations < 0.9 * base.get("obligations", 0):
            vanished = "only %d obligations generated, baseline %d" % (obligations, base["obligations"])
    if violations:
        status = 1
    elif crashes or (obligations == 0 and bounded_total == 0) or vanished:
        status = 3
        if vanished:
            print("CHECKER-ERROR obligations vanished: %s" % vanished, file=sys.stderr)
    elif undecided:
        status = 2
    for c in crashes[:5]:
        print("CHECKER-CRASH %s %s: %s\n%s" % (c["harness"], c["shape"], c.get("error"), c.get("trace", "")),
              file=sys.stderr)
    for u in undecided[:10]:
        print("UNDECIDED %s: %s" % (u["name"], u["detail"]), file=sys.stderr)
    by_h = {}
    for rec in records:
        if rec.get("kind") == "float":
            continue
        h = by_h.setdefault(rec["harness"], {"shapes": 0, "obligations": 0, "discharged": 0, "secs": 0.0})
        h["shapes"] += 1
        h["obligations"] += len(rec["results"])
        h["discharged"] += sum(1 for r in rec["results"] if r["status"] == "discharged")
        h["secs"] = round(h["secs"] + rec.get("secs", 0), 2)
    by_b = {}  # bounded / float-sampled contracts (never counted as proved)
    for rec in records:
        if rec.get("kind") != "float":
            continue
        h = by_b.setdefault(rec["harness"], {"samples": 0, "checks": 0, "secs": 0.0})
        h["samples"] += 1
        h["checks"] += len(rec.get("results") or [])
        h["secs"] = round(h["secs"] + rec.get("secs", 0), 2)
    for ref, h in list(by_h.items()) + list(by_b.items()):
        try:
            obj = load_harness(ref)
            h["function"] = getattr(obj, "function", "")
            h["contract"] = " ".join((obj.__doc__ or "").split())[:400]
        except Exception:
            pass
    ev = {
        "property_id": prop,
        "tier": tier,
        "seed": seed,
        "level": check.level,
        "coverage": {
            "obligations": obligations,
            "discharged": discharged,
            "by_backend": by_backend,
            "solver_seconds": round(solver_secs, 2),
            "failed": len(failed),
            "failed_known_findings": [k["id"] for k in known_hits],
            "undecided": len(undecided),
            "checker_cmd": "./vcheck %s --tier %s" % (prop, tier),
            "functions_under_contract": check.functions,
            "contracts": by_h,
            "bounded_contracts": by_b,
            "equalities_cross_checked_numerically": sum(r.get("crosschecked", 0) for r in records),
            "shapes_run": len(records),
            "sym_tasks": sum(1 for r in records if r.get("kind") != "float"),
            "tasks": [{"harness": r["harness"], "shape": r["shape"], "obligations": len(r["results"]),
                       "secs": r["secs"], "status": r["status"]} for r in sorted(records, key=lambda r: -r["secs"])[:40]],
            "samples": samples or names[:5],
            "exhaustive": False,
            "trusted_base": check.assumptions,
            "explanation": check.note,
            "names_sha1": hashlib.sha1("\n".join(sorted(names)).encode()).hexdigest(),
            "baseline": base or None,
        },
        "assumptions": check.assumptions,
        "wall_s": round(wall, 2),
        "violations": len(violations),
    }
    if bounded_total:
        ev["coverage"]["bounded_standin"] = {"checks": bounded_total, "passed": bounded_ok,
                                             "note": "run-time contract checks on generated / sampled inputs; NOT counted in obligations/discharged"}
    if extra_bounded:
        ev["coverage"]["bounded"] = extra_bounded
    evdir = os.environ.get("VERIF_EVIDENCE_DIR", os.path.join(VERIF, "evidence"))  # (override: experiments on scratch copies)
    os.makedirs(evdir, exist_ok=True)
    with open(os.path.join(evdir, "%s.json" % prop), "w") as fh:
        json.dump(ev, fh, indent=1, default=str)
    print("%s tier=%s obligations=%d discharged=%d failed=%d undecided=%d crashes=%d wall=%.1fs exit=%d" % (
        prop, tier, obligations, discharged, len(failed), len(undecided), len(crashes), wall, status))
    return status, ev, names


def _shape_tag(shape):
    if isinstance(shape, dict):
        return ",".join("%s=%s" % (k, _short(v)) for k, v in sorted(shape.items()))
    return str(shape)


def _short(v):
    s = json.dumps(v, separators=(",", ":")) if not isinstance(v, str) else v
    return s if len(s) < 60 else hashlib.sha1(s.encode()).hexdigest()[:8]
