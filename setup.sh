#!/bin/sh
# offline set-up: overlay venv on /venv's CPython 3.12 (numpy/scipy from there) + z3, cvc5, mpmath, jsonschema
set -e
HERE="$(cd "$(dirname "$0")" && pwd)"
V="$HERE/.venv"
if [ -x "$V/bin/python" ] && "$V/bin/python" -c "import z3, mpmath, numpy, scipy" 2>/dev/null; then
  exit 0
fi
rm -rf "$V"
/venv/bin/python -m venv --without-pip "$V"
SITE="$("$V/bin/python" -c 'import sysconfig; print(sysconfig.get_paths()["purelib"])')"
echo "import site; site.addsitedir('/venv/lib/python3.12/site-packages')" > "$SITE/_base_venv.pth"
PIP_NO_INDEX=1 /venv/bin/python -m pip install --quiet --no-index --find-links /opt/veriftools/wheels \
  --target "$SITE" z3-solver mpmath jsonschema sympy cvc5 2>&1 | tail -3
"$V/bin/python" -c "import z3, mpmath, numpy, scipy, jsonschema; print('venv ok', z3.get_version_string(), numpy.__version__)"
